//! Harness bodies for the static solvers (properties C01–C04, C06, C07, C16a, C17, C18).
//!
//! One body, `query`, drives one real solver object on one concrete framework presentation with one concrete query
//! and a demonic oracle, and checks the groups of assertions selected by `Checks`.  Under Kani the oracle's model
//! choices (and the fault position) are symbolic; natively the same body runs under the depth-first explorer of
//! `nd::native` (self-test of the harness) or a replay script.
//!
//! Everything expected (`ext_mask`, acceptance tables) is computed from the reference definitions of `spec` in
//! `const` context, i.e. by rustc at compile time: the model checker sees constants.

use crate::oracle::{self, Shared};
use crate::spec::{self, Sem};
use crustabri::aa::{AAFramework, Argument, ArgumentSet};
use crustabri::encodings::{
    aux_var_constraints_encoder, exp_constraints_encoder, ConstraintsEncoder, HybridCompleteConstraintsEncoder,
};
use crustabri::solvers::*;
use crustabri::verif_hooks as hooks;
use std::rc::Rc;

#[derive(Clone, Copy, PartialEq, Eq, Debug)]
pub enum Enc {
    /// the solver's own default (constructor without encoder)
    Default,
    AuxCf,
    AuxAdm,
    AuxCo,
    ExpCf,
    ExpCo,
    Hybrid,
}

pub fn encoder(e: Enc) -> Box<dyn ConstraintsEncoder<usize>> {
    match e {
        Enc::AuxCf => Box::new(aux_var_constraints_encoder::new_for_conflict_freeness()),
        Enc::AuxAdm => Box::new(aux_var_constraints_encoder::new_for_admissibility()),
        Enc::AuxCo => Box::new(aux_var_constraints_encoder::new_for_complete_semantics()),
        Enc::ExpCf => Box::new(exp_constraints_encoder::new_for_conflict_freeness()),
        Enc::ExpCo => Box::new(exp_constraints_encoder::new_for_complete_semantics()),
        Enc::Hybrid => Box::new(HybridCompleteConstraintsEncoder::default()),
        Enc::Default => unreachable!(),
    }
}

#[derive(Clone, Copy, PartialEq, Eq, Debug)]
pub enum Kind {
    SE,
    DC,
    DS,
}

/// How the framework is presented to the solver (the relation is the same).
#[derive(Clone, Copy, PartialEq, Eq, Debug)]
pub enum Pres {
    /// labels 0..N, compact ids, each attack declared once in row-major order
    Plain,
    /// every attack declared twice (as the ICCMA reader does for repeated lines), in reverse order the second time
    Dup,
    /// an extra argument is created first and removed again: ids are 1..=N, id 0 is a tombstone
    SparseFirst,
    /// an extra argument is created in the middle (id 1) and removed: ids 0,2,3,..
    SparseMid,
}

/// Which groups of assertions a harness enforces (one property = one group, so that a failure is attributable).
#[derive(Clone, Copy, Debug)]
pub struct Checks {
    /// C01/C02/C03: the answer itself
    pub answer: bool,
    /// C04: certificate presence and validity
    pub certificate: bool,
    /// C16a: no assumption above the header's variable count
    pub header: bool,
    /// C17: a query never returns after an injected fault
    pub fault: bool,
    /// C18: call bounds and candidate freshness
    pub calls: bool,
}

pub const ANSWER: Checks = Checks { answer: true, certificate: false, header: false, fault: false, calls: false };
pub const CERT: Checks = Checks { answer: true, certificate: true, header: false, fault: false, calls: false };
pub const HEADER: Checks = Checks { answer: false, certificate: false, header: true, fault: false, calls: false };
pub const FAULT: Checks = Checks { answer: false, certificate: false, header: false, fault: true, calls: false };
pub const CALLS: Checks = Checks { answer: false, certificate: false, header: false, fault: false, calls: true };

/// id of the argument with spec index `i` under presentation `p`
pub fn id_of(p: Pres, i: usize) -> usize {
    match p {
        Pres::Plain | Pres::Dup => i,
        Pres::SparseFirst => i + 1,
        Pres::SparseMid => {
            if i == 0 {
                0
            } else {
                i + 1
            }
        }
    }
}

pub const EXTRA: usize = 1000;

/// label of the argument with spec index `i` (labels differ from ids so that a mix-up is visible)
pub fn label_of(i: usize) -> usize {
    10 + i
}

pub fn build<const N: usize>(g: &spec::G<N>, p: Pres) -> AAFramework<usize> {
    let mut af = match p {
        Pres::Plain | Pres::Dup => {
            let mut labels = [0usize; N];
            let mut i = 0;
            while i < N {
                labels[i] = label_of(i);
                i += 1;
            }
            AAFramework::new_with_argument_set(ArgumentSet::new_with_labels(&labels))
        }
        Pres::SparseFirst => {
            let mut af = AAFramework::default();
            af.new_argument(EXTRA);
            for i in 0..N {
                af.new_argument(label_of(i));
            }
            af.new_attack(&EXTRA, &EXTRA).unwrap();
            if N > 0 {
                af.new_attack(&EXTRA, &label_of(0)).unwrap();
                af.new_attack(&label_of(N - 1), &EXTRA).unwrap();
            }
            af.remove_argument(&EXTRA).unwrap();
            af
        }
        Pres::SparseMid => {
            let mut af = AAFramework::default();
            for i in 0..N {
                if i == 1 {
                    af.new_argument(EXTRA);
                }
                af.new_argument(label_of(i));
            }
            if N <= 1 {
                af.new_argument(EXTRA);
            }
            if N > 0 {
                af.new_attack(&label_of(0), &EXTRA).unwrap();
            }
            af.remove_argument(&EXTRA).unwrap();
            af
        }
    };
    for i in 0..N {
        for j in 0..N {
            if g[i][j] {
                match p {
                    Pres::Plain | Pres::Dup => hooks::new_attack_by_ids(&mut af, i, j).unwrap(),
                    _ => af.new_attack(&label_of(i), &label_of(j)).unwrap(),
                }
            }
        }
    }
    if p == Pres::Dup {
        for i in (0..N).rev() {
            for j in (0..N).rev() {
                if g[i][j] {
                    hooks::new_attack_by_ids(&mut af, i, j).unwrap();
                }
            }
        }
    }
    af
}

/// Translates a returned extension into a bit-set over spec indices; `ok` is false if a member is not the caller's own
/// argument object (the very `Argument` stored in the framework's argument set, hence same id and label) or is listed
/// twice.  Members are identified by address only: dereferencing the (symbolic) members would make every access a case
/// split for CBMC, while the framework's own objects are concrete.
pub fn ext_bits<const N: usize>(af: &AAFramework<usize>, p: Pres, ext: &[&Argument<usize>]) -> (u32, bool) {
    let mut own: [*const Argument<usize>; N] = [std::ptr::null(); N];
    for i in 0..N {
        let o = af.argument_set().get_argument_by_id(id_of(p, i));
        // the framework's own object carries the expected label (checked on concrete data)
        if *o.label() != label_of(i) || o.id() != id_of(p, i) {
            return (0, false);
        }
        own[i] = o as *const Argument<usize>;
    }
    let mut bits = 0u32;
    let mut ok = true;
    for a in ext.iter() {
        let pa = *a as *const Argument<usize>;
        let mut hit = 0u32;
        for i in 0..N {
            hit |= ((pa == own[i]) as u32) << i;
        }
        ok = ok & (hit != 0) & (bits & hit == 0);
        bits |= hit;
    }
    (bits, ok)
}

/// bit s of the result = subset s is an extension
pub const fn ext_mask<const N: usize>(sem: Sem, code: u32) -> u64 {
    let g = crate::util::graph_from_code::<N>(code);
    let mut m = 0u64;
    let mut s = 0u32;
    while s < (1 << N) {
        if spec::is_ext(sem, &g, s) {
            m |= 1u64 << s;
        }
        s += 1;
    }
    m
}

#[inline(always)]
pub fn is_ext_in(mask: u64, s: u32) -> bool {
    (mask >> (s & 63)) & 1 == 1
}

/// bit q of the result = some extension of `mask` meets the set q
pub const fn cred_table<const N: usize>(mask: u64) -> u64 {
    let mut t = 0u64;
    let mut q = 0u32;
    while q < (1 << N) {
        let mut r = false;
        let mut s = 0u32;
        while s < (1 << N) {
            r = r | (((mask >> s) & 1 == 1) & (s & q != 0));
            s += 1;
        }
        if r {
            t |= 1u64 << q;
        }
        q += 1;
    }
    t
}

/// bit q of the result = every extension of `mask` meets the set q
pub const fn skep_table<const N: usize>(mask: u64) -> u64 {
    let mut t = 0u64;
    let mut q = 0u32;
    while q < (1 << N) {
        let mut r = true;
        let mut s = 0u32;
        while s < (1 << N) {
            r = r & (!((mask >> s) & 1 == 1) | (s & q != 0));
            s += 1;
        }
        if r {
            t |= 1u64 << q;
        }
        q += 1;
    }
    t
}

pub fn popcount64(m: u64) -> u32 {
    m.count_ones()
}

/// What the property text allows for the number of oracle calls on one component (C18), evaluated on the whole
/// framework (an upper bound of every component's own bound because candidate sets of a component extend to the whole).
pub struct CallBound {
    pub per_instance: u32,
}

/// Everything the harness learned from one query; used by the native self-tests and by replays.
#[derive(Debug, Default, Clone)]
pub struct Outcome {
    pub status: Option<bool>,
    pub ext: Option<u32>,
    pub calls: u32,
    pub max_calls_per_instance: u32,
    pub faulted: bool,
}

#[derive(Clone, Copy, Debug)]
pub struct Spec {
    /// extensions under the queried semantics
    pub mask: u64,
    /// extensions acceptable as a certificate of a credulous YES (complete extensions for DC-PR, else `mask`)
    pub cert_mask: u64,
    /// bit q = credulous status of the argument set q
    pub cred: u64,
    /// bit q = skeptical status of the argument set q
    pub skep: u64,
    /// C18 bound on the calls made on one solver instance
    pub max_calls: u32,
}

/// The reference values for (N, code, sem); `const`, so that `const { spec_of::<N>(SEM, CODE) }` is evaluated by rustc.
pub const fn spec_of<const N: usize>(sem: Sem, code: u32) -> Spec {
    let n = N as u32;
    let adm = popcount64_const(ext_mask::<N>(Sem::ADM, code));
    let co = popcount64_const(ext_mask::<N>(Sem::CO, code));
    let cf = popcount64_const(ext_mask::<N>(Sem::CF, code));
    let pr = popcount64_const(ext_mask::<N>(Sem::PR, code));
    let mask = ext_mask::<N>(sem, code);
    let (cert_mask, max_calls) = match sem {
        Sem::GR => (mask, 0),
        Sem::CO => (mask, 2),
        // the base semantics of PR/ID is admissible or complete sets depending on the encoder; admissible is the larger
        Sem::PR => (ext_mask::<N>(Sem::CO, code), adm + pr + 1),
        Sem::ST => (mask, 2),
        Sem::SST => (mask, (n + 2) * co + 3),
        Sem::STG => (mask, (n + 2) * cf + 3),
        Sem::ID => (mask, 2 * adm + pr + 2),
        _ => (mask, 0),
    };
    Spec { mask, cert_mask, cred: cred_table::<N>(mask), skep: skep_table::<N>(mask), max_calls }
}

pub const fn popcount64_const(m: u64) -> u32 {
    m.count_ones()
}

/// What one query returned (status for DC/DS, extension/certificate).
pub type Answer<'a> = (Option<bool>, Option<Vec<&'a Argument<usize>>>);

fn do_se<'a, S: SingleExtensionComputer<usize>>(s: &'a mut S) -> Answer<'a> {
    (None, s.compute_one_extension())
}

fn do_dc<'a, S: CredulousAcceptanceComputer<usize>>(s: &'a mut S, q: &[&usize], cert: bool) -> Answer<'a> {
    if cert {
        let (st, w) = s.are_credulously_accepted_with_certificate(q);
        (Some(st), w)
    } else {
        (Some(s.are_credulously_accepted(q)), None)
    }
}

fn do_ds<'a, S: SkepticalAcceptanceComputer<usize>>(s: &'a mut S, q: &[&usize], cert: bool) -> Answer<'a> {
    if cert {
        let (st, w) = s.are_skeptically_accepted_with_certificate(q);
        (Some(st), w)
    } else {
        (Some(s.are_skeptically_accepted(q)), None)
    }
}

/// A failed obligation of a harness: under Kani an assertion failure with this message, natively a panic.
#[macro_export]
macro_rules! require {
    ($c:expr, $what:literal) => {{
        #[cfg(kani)]
        kani::assert($c, $what);
        #[cfg(not(kani))]
        if !($c) {
            panic!("{}", $what);
        }
    }};
}

/// Reachability witness (vacuity guard): must be satisfiable in every harness that contains it.
#[macro_export]
macro_rules! reached {
    ($c:expr, $what:literal) => {{
        #[cfg(all(kani, feature = "covers"))]
        kani::cover($c, $what);
        #[cfg(not(all(kani, feature = "covers")))]
        let _ = $c;
    }};
}

/// One query on one fresh solver object.  `q` lists spec indices (ignored for SE); returns what was observed.
///
/// The solver object is built exactly as `solve_command` chooses it (SE-CO -> grounded solver, DC-PR -> complete
/// solver, DS-CO -> grounded solver).  Static dispatch on purpose: storing the solver in an enum or a trait object makes
/// CBMC lose constant propagation through the union / vtable.
pub fn query<const N: usize, const WORDS: usize>(
    af: &AAFramework<usize>,
    sp: &Spec,
    pres: Pres,
    sem: Sem,
    enc: Enc,
    kind: Kind,
    q: &[usize],
    cert: bool,
    checks: Checks,
    sh: &Rc<Shared>,
) -> Outcome {
    let mut qset = 0u32;
    let labels: Vec<usize> = q.iter().map(|i| label_of(*i)).collect();
    for i in q.iter() {
        qset |= 1 << *i;
    }
    let qrefs: Vec<&usize> = labels.iter().collect();
    let f = oracle::factory::<WORDS>(sh);
    macro_rules! all3 {
        ($solver:expr) => {{
            let mut s = $solver;
            let ans = match kind {
                Kind::SE => do_se(&mut s),
                Kind::DC => do_dc(&mut s, &qrefs, cert),
                Kind::DS => do_ds(&mut s, &qrefs, cert),
            };
            let o = check_answer::<N>(af, sp, pres, kind, qset, cert, checks, sh, ans);
            std::mem::forget(s);
            o
        }};
    }
    let out = match (sem, kind) {
        (Sem::GR, _) | (Sem::CO, Kind::SE) | (Sem::CO, Kind::DS) => all3!(GroundedSemanticsSolver::new(af)),
        (Sem::CO, Kind::DC) | (Sem::PR, Kind::DC) => {
            let mut s = match enc {
                Enc::Default => CompleteSemanticsSolver::new_with_sat_solver_factory(af, f),
                e => CompleteSemanticsSolver::new_with_sat_solver_factory_and_constraints_encoder(af, f, encoder(e)),
            };
            let ans = do_dc(&mut s, &qrefs, cert);
            let o = check_answer::<N>(af, sp, pres, kind, qset, cert, checks, sh, ans);
            std::mem::forget(s);
            o
        }
        (Sem::PR, _) => {
            let mut s = match enc {
                Enc::Default => PreferredSemanticsSolver::new_with_sat_solver_factory(af, f),
                e => PreferredSemanticsSolver::new_with_sat_solver_factory_and_constraints_encoder(af, f, encoder(e)),
            };
            let ans = match kind {
                Kind::SE => do_se(&mut s),
                _ => do_ds(&mut s, &qrefs, cert),
            };
            let o = check_answer::<N>(af, sp, pres, kind, qset, cert, checks, sh, ans);
            std::mem::forget(s);
            o
        }
        (Sem::ST, _) => all3!(StableSemanticsSolver::new_with_sat_solver_factory(af, f)),
        (Sem::SST, _) => all3!(match enc {
            Enc::Default => SemiStableSemanticsSolver::new_with_sat_solver_factory(af, f),
            e => SemiStableSemanticsSolver::new_with_sat_solver_factory_and_constraints_encoder(af, f, encoder(e)),
        }),
        (Sem::STG, _) => all3!(match enc {
            Enc::Default => StageSemanticsSolver::new_with_sat_solver_factory(af, f),
            e => StageSemanticsSolver::new_with_sat_solver_factory_and_constraints_encoder(af, f, encoder(e)),
        }),
        (Sem::ID, _) => all3!(match enc {
            Enc::Default => IdealSemanticsSolver::new_with_sat_solver_factory(af, f),
            e => IdealSemanticsSolver::new_with_sat_solver_factory_and_constraints_encoder(af, f, encoder(e)),
        }),
        _ => unreachable!(),
    };
    std::mem::forget(qrefs);
    std::mem::forget(labels);
    out
}

/// Compares one answer with the reference values and with the oracle's bookkeeping.
pub fn check_answer<const N: usize>(
    af: &AAFramework<usize>,
    sp: &Spec,
    pres: Pres,
    kind: Kind,
    qset: u32,
    cert: bool,
    checks: Checks,
    sh: &Rc<Shared>,
    ans: Answer,
) -> Outcome {
    let mut out = Outcome::default();
    match kind {
        Kind::SE => {
            let r = ans.1;
            match &r {
                Some(e) => {
                    let (bits, ok) = ext_bits::<N>(af, pres, e);
                    out.ext = Some(bits);
                    if checks.answer {
                        require!(ok, "C01: the extension is given in the caller's own arguments, without duplicates");
                        require!(is_ext_in(sp.mask, bits), "C01: the returned set is an extension under the semantics");
                    }
                    reached!(true, "an extension was returned");
                }
                None => {
                    if checks.answer {
                        require!(sp.mask == 0, "C01: 'no extension' is reported only when the framework has none");
                    }
                }
            }
            std::mem::forget(r);
        }
        Kind::DC | Kind::DS => {
            let cred = kind == Kind::DC;
            let status = ans.0.unwrap();
            let w = ans.1;
            out.status = Some(status);
            let expect = if cred { is_ext_in(sp.cred, qset) } else { is_ext_in(sp.skep, qset) };
            if checks.answer {
                if cred {
                    require!(status == expect, "C02: credulous status equals 'some extension contains a queried argument'");
                } else {
                    require!(status == expect, "C03: skeptical status equals 'every extension contains a queried argument'");
                }
            }
            if checks.certificate && cert {
                // a certificate accompanies exactly a credulous YES / a skeptical NO
                require!(w.is_some() == (status == cred), "C04: a certificate appears exactly with a credulous YES / skeptical NO");
                if let Some(e) = &w {
                    let (bits, ok) = ext_bits::<N>(af, pres, e);
                    out.ext = Some(bits);
                    require!(ok, "C04: certificate members are the framework's own arguments, each listed once");
                    if cred {
                        require!(is_ext_in(sp.cert_mask, bits), "C04: the certificate of a credulous YES is an extension");
                        require!(bits & qset != 0, "C04: the certificate of a credulous YES contains a queried argument");
                    } else {
                        require!(is_ext_in(sp.mask, bits), "C04: the certificate of a skeptical NO is an extension");
                        require!(bits & qset == 0, "C04: the certificate of a skeptical NO omits the queried arguments");
                    }
                }
            }
            reached!(true, "query answered");
            std::mem::forget(w);
        }
    }
    out.calls = sh.calls.get();
    out.max_calls_per_instance = sh.max_calls_per_instance.get();
    out.faulted = sh.faulted.get();
    require!(!sh.overflow.get(), "HARNESS: the oracle's variable cap was exceeded (inconclusive, enlarge WORDS)");
    if checks.header {
        require!(!sh.header_violation.get(), "C16: an assumption uses a variable above the DIMACS header's variable count");
    }
    if checks.fault {
        require!(!sh.faulted.get(), "C17: the query returned an answer although a SAT call failed");
    }
    if checks.calls {
        require!(sh.max_calls_per_instance.get() <= sp.max_calls, "C18: number of SAT calls on one solver instance within the bound");
        require!(!sh.repeated_candidate.get(), "C18: no candidate set is examined twice");
    }
    out
}

/// C06: several queries on ONE solver object, in the given order; every status is compared with the reference, the
/// status with and without certificate must coincide, and the framework must be left untouched.
/// `script` = list of (kind, argument index, with_certificate).
pub fn repeated_queries<const N: usize, const WORDS: usize>(
    af: &AAFramework<usize>,
    sp: &Spec,
    pres: Pres,
    sem: Sem,
    enc: Enc,
    script: &[(Kind, usize, bool)],
    sh: &Rc<Shared>,
) {
    let n_args = af.n_arguments();
    let n_atts = af.n_attacks();
    let f = oracle::factory::<WORDS>(sh);
    let checks = Checks { answer: true, certificate: true, header: false, fault: false, calls: false };
    macro_rules! go {
        ($solver:expr, $cred:expr, $skep:expr) => {{
            let mut s = $solver;
            for (kind, a, cert) in script.iter() {
                let l = label_of(*a);
                let q: [&usize; 1] = [&l];
                let ans: Answer = match kind {
                    Kind::DC => $cred(&mut s, &q[..], *cert),
                    _ => $skep(&mut s, &q[..], *cert),
                };
                let o = check_answer::<N>(af, sp, pres, *kind, 1 << *a, *cert, checks, sh, ans);
                std::mem::forget(o);
            }
            std::mem::forget(s);
        }};
    }
    match sem {
        Sem::ST => go!(StableSemanticsSolver::new_with_sat_solver_factory(af, f), do_dc, do_ds),
        Sem::GR => go!(GroundedSemanticsSolver::new(af), do_dc, do_ds),
        Sem::CO => {
            let mut s = match enc {
                Enc::Default => CompleteSemanticsSolver::new_with_sat_solver_factory(af, f),
                e => CompleteSemanticsSolver::new_with_sat_solver_factory_and_constraints_encoder(af, f, encoder(e)),
            };
            for (kind, a, cert) in script.iter() {
                let l = label_of(*a);
                let q: [&usize; 1] = [&l];
                let ans = do_dc(&mut s, &q[..], *cert);
                let o = check_answer::<N>(af, sp, pres, *kind, 1 << *a, *cert, checks, sh, ans);
                std::mem::forget(o);
            }
            std::mem::forget(s);
        }
        _ => unreachable!(),
    }
    require!(af.n_arguments() == n_args, "C06: querying never modifies the framework (arguments)");
    require!(af.n_attacks() == n_atts, "C06: querying never modifies the framework (attacks)");
    require!(af.iter_attacks().count() == n_atts, "C06: querying never modifies the framework (attack iteration)");
}

/// C06: the same credulous query through the complete solver with the three selectable encodings: one status.
pub fn same_status_for_every_encoding<const N: usize, const WORDS: usize>(af: &AAFramework<usize>, sp: &Spec, a: usize, cert: bool, sh: &Rc<Shared>) {
    let l = label_of(a);
    let q: [&usize; 1] = [&l];
    let mut first: Option<bool> = None;
    for e in [Enc::AuxCo, Enc::ExpCo, Enc::Hybrid] {
        let f = oracle::factory::<WORDS>(sh);
        let mut s = CompleteSemanticsSolver::new_with_sat_solver_factory_and_constraints_encoder(af, f, encoder(e));
        let ans = do_dc(&mut s, &q[..], cert);
        let st = ans.0.unwrap();
        require!(st == is_ext_in(sp.cred, 1 << a), "C06: the status equals the reference whatever the encoding");
        if let Some(x) = first {
            require!(x == st, "C06: the status does not depend on the encoding");
        }
        first = Some(st);
        std::mem::forget(ans);
        std::mem::forget(s);
    }
}
