//! Nondeterminism layer.
//!
//! Under Kani every call is exactly one `kani::any()` (plus an assumption); natively the values come from a
//! script (replay of a solver counterexample) or from the depth-first explorer used by the self-tests of the
//! harness crate (`cargo test`, development aid only: the deciding step of every check is the solver).

#[cfg(not(kani))]
pub mod native {
    use std::cell::RefCell;

    /// Payload used to abandon a native run whose assumption failed.
    pub struct Discard;

    #[derive(Default)]
    pub struct Script {
        /// values to return, in call order; for `Below`/`Model` choices in explore mode these are indices.
        pub values: Vec<u64>,
        /// domain size observed at each position (explore mode)
        pub domains: Vec<u64>,
        pub pos: usize,
        /// true: `values` are raw values as produced by Kani's concrete playback; false: explorer indices
        pub raw: bool,
    }

    thread_local! {
        pub static SCRIPT: RefCell<Script> = RefCell::new(Script::default());
    }

    pub fn next(domain: u64) -> u64 {
        SCRIPT.with(|s| {
            let mut s = s.borrow_mut();
            let pos = s.pos;
            s.pos += 1;
            if pos < s.values.len() {
                if pos < s.domains.len() {
                    s.domains[pos] = domain;
                } else {
                    s.domains.push(domain);
                }
                s.values[pos]
            } else {
                s.values.push(0);
                s.domains.push(domain);
                0
            }
        })
    }

    pub fn is_raw() -> bool {
        SCRIPT.with(|s| s.borrow().raw)
    }

    /// Runs `f` once with the given raw script (replay). Returns Err(()) if an assumption failed.
    pub fn run_raw<R>(values: Vec<u64>, f: impl FnOnce() -> R + std::panic::UnwindSafe) -> Result<R, String> {
        SCRIPT.with(|s| {
            *s.borrow_mut() = Script { values, domains: vec![], pos: 0, raw: true };
        });
        match std::panic::catch_unwind(f) {
            Ok(r) => Ok(r),
            Err(e) => {
                if e.downcast_ref::<Discard>().is_some() {
                    Err("assumption failed".to_string())
                } else if let Some(s) = e.downcast_ref::<String>() {
                    Err(format!("panic: {}", s))
                } else if let Some(s) = e.downcast_ref::<&str>() {
                    Err(format!("panic: {}", s))
                } else {
                    Err("panic".to_string())
                }
            }
        }
    }

    /// Depth-first exploration of every choice sequence of `f`; returns (runs, discarded, failures).
    pub fn explore(f: impl Fn() + std::panic::RefUnwindSafe, max_runs: usize) -> (usize, usize, Vec<(Vec<u64>, String)>) {
        let mut prefix: Vec<u64> = vec![];
        let mut runs = 0;
        let mut discarded = 0;
        let mut failures = vec![];
        let hook = std::panic::take_hook();
        std::panic::set_hook(Box::new(|_| {}));
        loop {
            SCRIPT.with(|s| {
                *s.borrow_mut() = Script { values: prefix.clone(), domains: vec![], pos: 0, raw: false };
            });
            let r = std::panic::catch_unwind(|| f());
            runs += 1;
            let (values, domains, pos) = SCRIPT.with(|s| {
                let s = s.borrow();
                (s.values.clone(), s.domains.clone(), s.pos)
            });
            if let Err(e) = r {
                if e.downcast_ref::<Discard>().is_some() {
                    discarded += 1;
                } else {
                    let msg = if let Some(s) = e.downcast_ref::<String>() {
                        s.clone()
                    } else if let Some(s) = e.downcast_ref::<&str>() {
                        s.to_string()
                    } else {
                        "panic".to_string()
                    };
                    failures.push((values[..pos.min(values.len())].to_vec(), msg));
                }
            }
            // advance: find last position that can be incremented
            let mut vals = values[..pos.min(values.len())].to_vec();
            let doms = &domains[..pos.min(domains.len())];
            let mut advanced = false;
            while let Some(v) = vals.pop() {
                let d = doms[vals.len()];
                if v + 1 < d {
                    vals.push(v + 1);
                    advanced = true;
                    break;
                }
            }
            if !advanced || runs >= max_runs {
                break;
            }
            prefix = vals;
        }
        std::panic::set_hook(hook);
        (runs, discarded, failures)
    }
}

/// An arbitrary boolean.
#[inline(never)]
pub fn bool_() -> bool {
    #[cfg(kani)]
    {
        kani::any()
    }
    #[cfg(not(kani))]
    {
        native::next(2) != 0
    }
}

/// An arbitrary value in `0..n` (`n >= 1`).
#[inline(never)]
pub fn below(n: u32) -> u32 {
    #[cfg(kani)]
    {
        let v: u32 = kani::any();
        kani::assume(v < n);
        v
    }
    #[cfg(not(kani))]
    {
        let v = native::next(n as u64) as u32;
        assume(v < n);
        v
    }
}

/// Restricts the explored behaviours to those satisfying `c`.
#[inline(always)]
pub fn assume(c: bool) {
    #[cfg(kani)]
    kani::assume(c);
    #[cfg(not(kani))]
    if !c {
        std::panic::panic_any(native::Discard);
    }
}

/// An arbitrary value `v < total` with `pred(v)`; the caller guarantees that one exists.
/// Under Kani: one `kani::any::<u32>()` constrained by an assumption (the solver picks). Natively: the script
/// value is the raw value (replay) or the index among the satisfying values (explorer).
#[inline(never)]
pub fn satisfying(total: u32, pred: impl Fn(u32) -> bool) -> u32 {
    #[cfg(kani)]
    {
        let v: u32 = kani::any();
        kani::assume((v < total) & pred(v));
        v
    }
    #[cfg(not(kani))]
    {
        if native::is_raw() {
            let v = native::next(total as u64) as u32;
            assume(v < total && pred(v));
            v
        } else {
            let sat: Vec<u32> = (0..total).filter(|b| pred(*b)).collect();
            assert!(!sat.is_empty());
            let i = native::next(sat.len() as u64) as usize;
            sat[i]
        }
    }
}

/// An arbitrary value in `0..n`; the native explorer only enumerates `0..min(n, cap)` (used where the symbolic domain
/// is far too large to enumerate: the explorer is a replay aid, the solver covers the whole domain).
#[inline(never)]
pub fn below_capped(n: u32, _cap: u32) -> u32 {
    #[cfg(kani)]
    {
        let v: u32 = kani::any();
        kani::assume(v < n);
        v
    }
    #[cfg(not(kani))]
    {
        let d = if native::is_raw() { n } else { n.min(_cap) };
        let v = native::next(d as u64) as u32;
        assume(v < n);
        v
    }
}

/// An arbitrary ASCII byte (< 128); the native explorer only enumerates the bytes of `alphabet`.
#[inline(never)]
pub fn ascii_byte(_alphabet: &[u8]) -> u8 {
    #[cfg(kani)]
    {
        let v: u8 = kani::any();
        kani::assume(v < 128);
        v
    }
    #[cfg(not(kani))]
    {
        if native::is_raw() {
            let v = native::next(128) as u8;
            assume(v < 128);
            v
        } else {
            _alphabet[native::next(_alphabet.len() as u64) as usize]
        }
    }
}
