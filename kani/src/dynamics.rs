//! Harness bodies for the dynamic solvers (C08, C09): an update/query history on a real dynamic solver against the
//! set model, with the demonic oracle.  The history is chosen through `nd` (symbolic under Kani, enumerated natively).
use crate::nd;
use crate::oracle::{self, Shared};
use crate::spec::{self, Sem};
use crate::{reached, require};
use crustabri::aa::Argument;
use crustabri::dynamics::assumptions_on_attacks::{
    DynamicCompleteSemanticsSolverAttacks, DynamicStableSemanticsSolverAttacks,
};
use crustabri::dynamics::{
    DummyDynamicConstraintsEncoder, DynamicCompleteSemanticsSolver, DynamicPreferredSemanticsSolver, DynamicSolver,
    DynamicStableSemanticsSolver,
};
use crustabri::solvers::*;
use std::rc::Rc;

/// label universe size
pub const L: usize = 3;

pub fn lab(x: usize) -> usize {
    30 + x
}

#[derive(Clone, Copy, PartialEq, Eq, Debug)]
pub enum Dyn {
    Complete,
    Stable,
    Preferred,
    CompleteAttacks,
    StableAttacks,
    /// recompute-from-scratch wrapper around the static complete (DC) / preferred (DS) solvers
    DummyCoPr,
    /// recompute-from-scratch wrapper around the static stable solver
    DummySt,
}

#[derive(Clone, Copy)]
pub struct Model {
    pub present: [bool; L],
    pub id: [usize; L],
    pub att: [[bool; L]; L],
    pub next_id: usize,
}

impl Model {
    pub fn new() -> Self {
        Model { present: [false; L], id: [0; L], att: [[false; L]; L], next_id: 0 }
    }
    /// graph over the label universe; absent labels are isolated and filtered out afterwards
    pub fn live_mask(&self) -> u32 {
        let mut m = 0;
        for x in 0..L {
            m |= (self.present[x] as u32) << x;
        }
        m
    }
}

/// `s` (a subset of the live labels) is an extension of the current framework under `sem`
pub fn is_ext_now(m: &Model, sem: Sem, s: u32) -> bool {
    // absent labels: make them self-attacking so that no extension of the padded graph contains them, then
    // extensions of the padded graph restricted to live labels = extensions of the live graph for the semantics used
    // here (CO, ST, PR): a self-attacking isolated argument is in no conflict-free set and attacks nothing else;
    // for ST it would destroy all extensions, so ST is computed on live labels explicitly.
    let live = m.live_mask();
    if s & !live != 0 {
        return false;
    }
    let g = m.att;
    match sem {
        Sem::ST => {
            // conflict-free and every live label outside s attacked by s
            let atk = spec::attacked_by::<L>(&g, s);
            (atk & s == 0) & ((s | atk) & live == live)
        }
        Sem::CO => {
            let atk = spec::attacked_by::<L>(&g, s);
            let mut def = 0u32;
            for a in 0..L {
                let attackers = spec::attackers::<L>(&g, a);
                if (live >> a) & 1 == 1 && attackers & !atk == 0 {
                    def |= 1 << a;
                }
            }
            (atk & s == 0) & (def == s)
        }
        Sem::PR => {
            let adm = |t: u32| -> bool {
                let atk = spec::attacked_by::<L>(&g, t);
                let mut ok = (atk & t == 0) & (t & !live == 0);
                for a in 0..L {
                    if (t >> a) & 1 == 1 {
                        ok = ok & (spec::attackers::<L>(&g, a) & !atk == 0);
                    }
                }
                ok
            };
            let mut ok = adm(s);
            for t in 0..(1u32 << L) {
                ok = ok & !((t & s == s) & (t != s) & adm(t));
            }
            ok
        }
        _ => unreachable!(),
    }
}

pub fn cred_now(m: &Model, sem: Sem, a: usize) -> bool {
    let mut r = false;
    for s in 0..(1u32 << L) {
        r = r | (is_ext_now(m, sem, s) & ((s >> a) & 1 == 1));
    }
    r
}

pub fn skep_now(m: &Model, sem: Sem, a: usize) -> bool {
    let mut r = true;
    for s in 0..(1u32 << L) {
        r = r & (!is_ext_now(m, sem, s) | ((s >> a) & 1 == 1));
    }
    r
}

/// Applies an update to the model; returns (valid, redundant).
pub fn model_update(m: &mut Model, kind: u32, x: usize, y: usize) -> (bool, bool) {
    match kind {
        0 => {
            if m.present[x] {
                (true, true)
            } else {
                m.present[x] = true;
                m.id[x] = m.next_id;
                m.next_id += 1;
                (true, false)
            }
        }
        1 => {
            if !m.present[x] {
                (false, false)
            } else {
                m.present[x] = false;
                for k in 0..L {
                    m.att[x][k] = false;
                    m.att[k][x] = false;
                }
                (true, false)
            }
        }
        2 => {
            if !(m.present[x] & m.present[y]) {
                (false, false)
            } else if m.att[x][y] {
                (true, true)
            } else {
                m.att[x][y] = true;
                (true, false)
            }
        }
        _ => {
            if !(m.present[x] & m.present[y] & m.att[x][y]) {
                (false, false)
            } else {
                m.att[x][y] = false;
                (true, false)
            }
        }
    }
}

pub fn ext_bits_now(m: &Model, ext: &[&Argument<usize>]) -> (u32, bool) {
    let mut bits = 0u32;
    let mut ok = true;
    for a in ext.iter() {
        let mut idx = L;
        for x in 0..L {
            if m.present[x] && m.id[x] == a.id() {
                idx = x;
            }
        }
        if idx == L {
            ok = false;
        } else {
            ok = ok & (*a.label() == lab(idx)) & ((bits >> idx) & 1 == 0);
            bits |= 1 << idx;
        }
    }
    (bits, ok)
}

/// One event of a history: (kind 0..=5, x, y, with_certificate); kinds 0-3 are the four updates, 4 = DC, 5 = DS.
pub type Event = (u32, usize, usize, bool);

/// What a history may contain.
#[derive(Clone, Copy)]
pub struct Plan {
    /// number of events (updates or queries)
    pub events: usize,
    /// allow redundant / invalid updates (C09); otherwise they are assumed away (C08)
    pub allow_bad: bool,
    /// labels used (<= L)
    pub labels: u32,
    /// reservation factor of the assumptions-on-attacks solvers
    pub arg_factor: f64,
    /// when set, the events are these (concrete history, used by the Kani harnesses: only the oracle is symbolic)
    pub fixed: Option<&'static [Event]>,
}

macro_rules! drive {
    ($solver:expr, $m:ident, $plan:ident, $sem_dc:expr, $sem_ds:expr, $sh:ident) => {{
        let mut s = $solver;
        let mut queries = 0;
        let n_events = match $plan.fixed {
            Some(f) => f.len(),
            None => $plan.events,
        };
        for k in 0..n_events {
            let (ev, x, fy, fcert) = match $plan.fixed {
                Some(f) => f[k],
                None => (nd::below(6), nd::below($plan.labels) as usize, usize::MAX, false),
            };
            if ev < 4 {
                let y = if fy != usize::MAX { fy } else if ev >= 2 { nd::below($plan.labels) as usize } else { 0 };
                let mut probe = $m;
                let (valid, redundant) = model_update(&mut probe, ev, x, y);
                if !$plan.allow_bad {
                    nd::assume(valid & !redundant);
                }
                let r = match ev {
                    0 => {
                        s.new_argument(lab(x));
                        Ok(())
                    }
                    1 => s.remove_argument(&lab(x)),
                    2 => s.new_attack(&lab(x), &lab(y)),
                    _ => s.remove_attack(&lab(x), &lab(y)),
                };
                if $plan.allow_bad {
                    require!(r.is_ok() == valid, "C09: an update is reported as an error by the update call exactly when it is invalid");
                }
                std::mem::forget(r);
                $m = probe;
            } else {
                // a query on a live argument
                nd::assume($m.present[x]);
                let cert = if $plan.fixed.is_some() { fcert } else { nd::bool_() };
                queries += 1;
                if ev == 4 {
                    if let Some(sem) = $sem_dc {
                        let (st, w) = if cert {
                            s.are_credulously_accepted_with_certificate(&[&lab(x)])
                        } else {
                            (s.are_credulously_accepted(&[&lab(x)]), None)
                        };
                        require!(st == cred_now(&$m, sem, x), "C08: the credulous answer is the one of the current framework");
                        if cert {
                            require!(w.is_some() == st, "C08: a certificate accompanies exactly a credulous YES");
                        }
                        if let Some(e) = &w {
                            let (bits, ok) = ext_bits_now(&$m, e);
                            require!(ok, "C08: certificate members are current arguments, each listed once");
                            require!(is_ext_now(&$m, sem, bits) & ((bits >> x) & 1 == 1), "C08: the certificate is an extension of the current framework containing the argument");
                        }
                        std::mem::forget(w);
                    }
                } else if let Some(sem) = $sem_ds {
                    let (st, w) = if cert {
                        s.are_skeptically_accepted_with_certificate(&[&lab(x)])
                    } else {
                        (s.are_skeptically_accepted(&[&lab(x)]), None)
                    };
                    require!(st == skep_now(&$m, sem, x), "C08: the skeptical answer is the one of the current framework");
                    if cert {
                        require!(w.is_some() == !st, "C08: a certificate accompanies exactly a skeptical NO");
                    }
                    if let Some(e) = &w {
                        let (bits, ok) = ext_bits_now(&$m, e);
                        require!(ok, "C08: certificate members are current arguments, each listed once");
                        require!(is_ext_now(&$m, sem, bits) & ((bits >> x) & 1 == 0), "C08: the certificate is an extension of the current framework omitting the argument");
                    }
                    std::mem::forget(w);
                }
            }
        }
        require!(!$sh.overflow.get(), "HARNESS: the oracle's variable cap was exceeded (inconclusive, enlarge WORDS)");
        reached!(queries > 0, "a history with a query");
        std::mem::forget(s);
    }};
}

/// One history on one dynamic solver.
pub fn history<const WORDS: usize>(which: Dyn, plan: Plan, sh: &Rc<Shared>) {
    let mut m = Model::new();
    let f = oracle::factory::<WORDS>(sh);
    match which {
        Dyn::Complete => drive!(DynamicCompleteSemanticsSolver::<usize>::new_with_sat_solver_factory(f), m, plan, Some(Sem::CO), None::<Sem>, sh),
        Dyn::Stable => drive!(DynamicStableSemanticsSolver::<usize>::new_with_sat_solver_factory(f), m, plan, Some(Sem::ST), Some(Sem::ST), sh),
        Dyn::Preferred => drive!(DynamicPreferredSemanticsSolver::<usize>::new_with_sat_solver_factory(f), m, plan, None::<Sem>, Some(Sem::PR), sh),
        Dyn::CompleteAttacks => drive!(DynamicCompleteSemanticsSolverAttacks::<usize>::new_with_sat_solver_factory_and_arg_factor(f, plan.arg_factor), m, plan, Some(Sem::CO), None::<Sem>, sh),
        Dyn::StableAttacks => drive!(DynamicStableSemanticsSolverAttacks::<usize>::new_with_sat_solver_factory_and_arg_factor(f, plan.arg_factor), m, plan, Some(Sem::ST), Some(Sem::ST), sh),
        Dyn::DummyCoPr => {
            let sh1 = sh.clone();
            let sh2 = sh.clone();
            drive!(
                DummyDynamicConstraintsEncoder::<usize>::new(
                    Some(Box::new(move |af| Box::new(CompleteSemanticsSolver::new_with_sat_solver_factory(af, oracle::factory::<WORDS>(&sh1))))),
                    Some(Box::new(move |af| Box::new(PreferredSemanticsSolver::new_with_sat_solver_factory(af, oracle::factory::<WORDS>(&sh2))))),
                ),
                m, plan, Some(Sem::CO), Some(Sem::PR), sh
            )
        }
        Dyn::DummySt => {
            let sh1 = sh.clone();
            let sh2 = sh.clone();
            drive!(
                DummyDynamicConstraintsEncoder::<usize>::new(
                    Some(Box::new(move |af| Box::new(StableSemanticsSolver::new_with_sat_solver_factory(af, oracle::factory::<WORDS>(&sh1))))),
                    Some(Box::new(move |af| Box::new(StableSemanticsSolver::new_with_sat_solver_factory(af, oracle::factory::<WORDS>(&sh2))))),
                ),
                m, plan, Some(Sem::ST), Some(Sem::ST), sh
            )
        }
    }
}
