//! Verification harnesses for crustabri (see /verif/DESIGN.md).
#![allow(dead_code)]
pub mod dynamics;
pub mod h_writers;
pub mod nd;
pub mod oracle;
pub mod spec;
pub mod statics;
pub mod store;
pub mod util;
pub mod h_dimacs;
pub mod h_dynamic;
pub mod h_iccma;
pub mod h_indep;
pub mod h_layout;
pub mod h_problem;
pub mod h_static;
pub mod h_store;
