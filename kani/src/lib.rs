//! Verification harnesses for crustabri (see /verif/DESIGN.md).
#![allow(dead_code)]
pub mod dynamics;
pub mod nd;
pub mod oracle;
pub mod spec;
pub mod statics;
pub mod store;
pub mod util;
#[cfg(kani)]
mod h_layout;
#[cfg(kani)]
mod h_problem;
#[cfg(kani)]
mod h_probe2;
#[cfg(kani)]
mod h_static;
#[cfg(kani)]
mod h_store;
