//! Verification harnesses for crustabri (see /verif/DESIGN.md).
#![allow(dead_code)]
pub mod nd;
pub mod oracle;
pub mod spec;
pub mod statics;
pub mod util;
#[cfg(kani)]
mod h_static;
