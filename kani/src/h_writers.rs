//! C14 (probe): the response writers against a reference printer; formatting NOT stubbed.
use crate::nd;
use crate::require;
use crustabri::io::{Iccma23Writer, ResponseWriter};
use crustabri::verif_hooks as hooks;

fn ref_usize(mut v: usize, out: &mut Vec<u8>) {
    let mut digits = [0u8; 4];
    let mut n = 0;
    loop {
        digits[n] = b'0' + (v % 10) as u8;
        n += 1;
        v /= 10;
        if v == 0 {
            break;
        }
    }
    while n > 0 {
        n -= 1;
        out.push(digits[n]);
    }
}

#[cfg_attr(kani, kani::proof)]
#[cfg_attr(kani, kani::stub(std::backtrace::Backtrace::capture, crate::util::bt_stub))]
#[cfg_attr(kani, kani::stub(<anyhow::Error as std::ops::Drop>::drop, crate::util::noop_err_drop))]
#[cfg_attr(kani, kani::unwind(6))]
pub fn c14_p_iccma_status() {
    let w = Iccma23Writer::default();
    let st = nd::bool_();
    let mut buf: Vec<u8> = Vec::new();
    let r = w.write_acceptance_status(&mut buf, st);
    require!(r.is_ok(), "C14: writing into memory succeeds");
    let want: &[u8] = if st { b"YES\n" } else { b"NO\n" };
    require!(buf.len() == want.len(), "C14: acceptance statuses are exactly the lines YES and NO (length)");
    let mut same = true;
    for i in 0..want.len() {
        same = same & (buf[i] == want[i]);
    }
    require!(same, "C14: acceptance statuses are exactly the lines YES and NO");
    std::mem::forget(r);
}

#[cfg_attr(kani, kani::proof)]
#[cfg_attr(kani, kani::stub(std::backtrace::Backtrace::capture, crate::util::bt_stub))]
#[cfg_attr(kani, kani::stub(<anyhow::Error as std::ops::Drop>::drop, crate::util::noop_err_drop))]
#[cfg_attr(kani, kani::unwind(8))]
pub fn c14_p_iccma_ext1() {
    let w = Iccma23Writer::default();
    let label = nd::below_capped(100, 100) as usize;
    let a = hooks::new_argument(0, label);
    let ext = [&a];
    let mut buf: Vec<u8> = Vec::new();
    let r = w.write_single_extension(&mut buf, &ext[..]);
    require!(r.is_ok(), "C14: writing into memory succeeds");
    let mut want: Vec<u8> = Vec::new();
    want.push(b'w');
    want.push(b' ');
    ref_usize(label, &mut want);
    want.push(b'\n');
    require!(buf.len() == want.len(), "C14: one line 'w' followed by the space-separated labels (length)");
    let mut same = true;
    for i in 0..want.len().min(buf.len()) {
        same = same & (buf[i] == want[i]);
    }
    require!(same, "C14: one line 'w' followed by the space-separated labels");
    std::mem::forget(r);
}
