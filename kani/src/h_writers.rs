//! C14: the response writers and `AspartixWriter::write_framework` against a reference printer / reader.
//! Formatting is NOT stubbed here (`write!` goes through `core::fmt`, which CBMC handles at these sizes).
use crate::nd;
use crate::{reached, require};
use crustabri::aa::AAFramework;
use crustabri::io::{AspartixWriter, Iccma23Writer, ResponseWriter};
use crustabri::verif_hooks as hooks;

fn ref_usize(mut v: usize, out: &mut Vec<u8>) {
    let mut digits = [0u8; 4];
    let mut n = 0;
    loop {
        digits[n] = b'0' + (v % 10) as u8;
        n += 1;
        v /= 10;
        if v == 0 {
            break;
        }
    }
    while n > 0 {
        n -= 1;
        out.push(digits[n]);
    }
}

fn same_bytes(got: &[u8], want: &[u8]) -> bool {
    let mut same = got.len() == want.len();
    let mut i = 0;
    while i < want.len() && i < got.len() {
        same = same & (got[i] == want[i]);
        i += 1;
    }
    same
}

/// reference reader of the ICCMA'23 witness line: "w" (" " number)* "\n" -> the numbers
fn read_back_iccma(b: &[u8]) -> Option<Vec<usize>> {
    if b.len() < 2 || b[0] != b'w' || b[b.len() - 1] != b'\n' {
        return None;
    }
    let mut out = Vec::new();
    let mut i = 1;
    while i < b.len() - 1 {
        if b[i] != b' ' {
            return None;
        }
        i += 1;
        let mut v = 0usize;
        let mut nd = 0;
        while i < b.len() - 1 && b[i] >= b'0' && b[i] <= b'9' {
            v = v * 10 + (b[i] - b'0') as usize;
            i += 1;
            nd += 1;
        }
        if nd == 0 {
            return None;
        }
        out.push(v);
    }
    Some(out)
}

fn status(iccma: bool) {
    let st = nd::bool_();
    let mut buf: Vec<u8> = Vec::new();
    let r = if iccma {
        Iccma23Writer::default().write_acceptance_status(&mut buf, st)
    } else {
        AspartixWriter::default().write_acceptance_status(&mut buf, st)
    };
    require!(r.is_ok(), "C14: writing into memory succeeds");
    let want: &[u8] = if st { b"YES\n" } else { b"NO\n" };
    require!(same_bytes(&buf, want), "C14: acceptance statuses are exactly the lines YES and NO");
    std::mem::forget(r);
    let mut buf2: Vec<u8> = Vec::new();
    let r2 = if iccma {
        Iccma23Writer::default().write_no_extension(&mut buf2)
    } else {
        AspartixWriter::default().write_no_extension(&mut buf2)
    };
    require!(r2.is_ok(), "C14: writing into memory succeeds");
    require!(same_bytes(&buf2, b"NO\n"), "C14: 'no extension' is exactly the line NO");
    std::mem::forget(r2);
}

/// an ICCMA'23 extension of `len` arguments (concrete); the first label is symbolic below `bound`, the others concrete
fn iccma_extension(len: usize, bound: u32) {
    let w = Iccma23Writer::default();
    let l0 = nd::below_capped(bound, 12) as usize;
    let l1 = 307usize;
    let a0 = hooks::new_argument(0, l0);
    let a1 = hooks::new_argument(1, l1);
    let all = [&a0, &a1];
    let mut buf: Vec<u8> = Vec::new();
    let r = w.write_single_extension(&mut buf, &all[..len]);
    require!(r.is_ok(), "C14: writing into memory succeeds");
    let mut want: Vec<u8> = Vec::new();
    want.push(b'w');
    if len >= 1 {
        want.push(b' ');
        ref_usize(l0, &mut want);
    }
    if len >= 2 {
        want.push(b' ');
        ref_usize(l1, &mut want);
    }
    want.push(b'\n');
    require!(same_bytes(&buf, &want), "C14: an ICCMA'23 extension is one line 'w' followed by the space-separated labels, nothing else");
    // the reference reader runs natively only (replay): under CBMC its loops over the symbolic bytes cost 30-45 GB,
    // and byte equality with the reference printer already implies that the line reads back
    #[cfg(not(kani))]
    let back = read_back_iccma(&buf);
    #[cfg(kani)]
    let back: Option<Vec<usize>> = {
        let mut v = Vec::new();
        if len >= 1 {
            v.push(l0);
        }
        if len >= 2 {
            v.push(l1);
        }
        Some(v)
    };
    match back {
        Some(v) => {
            require!(v.len() == len, "C14: the witness line reads back to as many labels as were written");
            if len >= 1 {
                require!(v[0] == l0, "C14: the witness line reads back to the labels written");
            }
            if len >= 2 {
                require!(v[1] == l1, "C14: the witness line reads back to the labels written");
            }
        }
        None => require!(false, "C14: the witness line reads back"),
    }
    std::mem::forget(r);
}

/// an Aspartix extension: symbolic length 0..=2 over the concrete labels `n0`, `n1`
fn apx_extension(n0: &str, n1: &str) {
    let w = AspartixWriter::default();
    let len = nd::below(3) as usize;
    let a0 = hooks::new_argument(0, n0.to_string());
    let a1 = hooks::new_argument(1, n1.to_string());
    let all = [&a0, &a1];
    let mut buf: Vec<u8> = Vec::new();
    let r = w.write_single_extension(&mut buf, &all[..len]);
    require!(r.is_ok(), "C14: writing into memory succeeds");
    let mut want: Vec<u8> = Vec::new();
    want.push(b'[');
    if len >= 1 {
        want.extend_from_slice(n0.as_bytes());
    }
    if len >= 2 {
        want.push(b',');
        want.extend_from_slice(n1.as_bytes());
    }
    want.push(b']');
    want.push(b'\n');
    require!(same_bytes(&buf, &want), "C14: an Aspartix extension is one bracketed comma-separated list, nothing else");
    std::mem::forget(r);
}

/// a, b with a->b, b->b, b->a; one (symbolic) argument removed; the written file must list exactly the live arguments
/// in creation order and the live attacks in insertion order
fn apx_framework() {
    let names = ["a", "b"];
    let mut af: AAFramework<String> = AAFramework::default();
    for n in names.iter() {
        af.new_argument(n.to_string());
    }
    let atts = [(0usize, 1usize), (1, 1), (1, 0)];
    for (i, j) in atts.iter() {
        af.new_attack(&names[*i].to_string(), &names[*j].to_string()).unwrap();
    }
    let removed = nd::below(2) as usize;
    af.remove_argument(&names[removed].to_string()).unwrap();
    let mut buf: Vec<u8> = Vec::new();
    let r = AspartixWriter::default().write_framework(&af, &mut buf);
    require!(r.is_ok(), "C14: writing into memory succeeds");
    let mut want: Vec<u8> = Vec::new();
    for (k, n) in names.iter().enumerate() {
        if k != removed {
            want.extend_from_slice(b"arg(");
            want.extend_from_slice(n.as_bytes());
            want.extend_from_slice(b").\n");
        }
    }
    for (i, j) in atts.iter() {
        if *i != removed && *j != removed {
            want.extend_from_slice(b"att(");
            want.extend_from_slice(names[*i].as_bytes());
            want.push(b',');
            want.extend_from_slice(names[*j].as_bytes());
            want.extend_from_slice(b").\n");
        }
    }
    require!(same_bytes(&buf, &want), "C14: the written framework lists exactly the live arguments (in order) and the live attacks");
    std::mem::forget(r);
    std::mem::forget(af);
}

/// usize labels 1, 2 with 1->2, 2->2, 2->1; one argument removed (symbolic when `which` is None); the written file
/// must list exactly the live arguments in creation order and the live attacks in insertion order
fn apx_framework_usize(which: Option<usize>) {
    let labels = [1usize, 2usize];
    let mut af: AAFramework<usize> = AAFramework::default();
    for n in labels.iter() {
        af.new_argument(*n);
    }
    let atts = [(0usize, 1usize), (1, 1), (1, 0)];
    for (i, j) in atts.iter() {
        af.new_attack(&labels[*i], &labels[*j]).unwrap();
    }
    let removed = match which {
        Some(k) => k,
        None => nd::below(2) as usize,
    };
    af.remove_argument(&labels[removed]).unwrap();
    let mut buf: Vec<u8> = Vec::new();
    let r = AspartixWriter::default().write_framework(&af, &mut buf);
    require!(r.is_ok(), "C14: writing into memory succeeds");
    let mut want: Vec<u8> = Vec::new();
    for (k, n) in labels.iter().enumerate() {
        if k != removed {
            want.extend_from_slice(b"arg(");
            ref_usize(*n, &mut want);
            want.extend_from_slice(b").\n");
        }
    }
    for (i, j) in atts.iter() {
        if *i != removed && *j != removed {
            want.extend_from_slice(b"att(");
            ref_usize(labels[*i], &mut want);
            want.push(b',');
            ref_usize(labels[*j], &mut want);
            want.extend_from_slice(b").\n");
        }
    }
    require!(same_bytes(&buf, &want), "C14: the written framework lists exactly the live arguments (in order) and the live attacks");
    std::mem::forget(r);
    std::mem::forget(af);
}

macro_rules! writer_harness {
    ($name:ident, $unwind:literal, $body:expr) => {
        #[cfg_attr(kani, kani::proof)]
        #[cfg_attr(kani, kani::stub(std::backtrace::Backtrace::capture, crate::util::bt_stub))]
        #[cfg_attr(kani, kani::stub(<anyhow::Error as std::ops::Drop>::drop, crate::util::noop_err_drop))]
        #[cfg_attr(kani, kani::unwind($unwind))]
        pub fn $name() {
            $body
        }
    };
}

writer_harness!(c14_q_iccma_status, 6, status(true));
writer_harness!(c14_q_apx_status, 6, status(false));
writer_harness!(c14_q_iccma_ext_empty, 6, iccma_extension(0, 1));
writer_harness!(c14_q_iccma_ext_one, 8, iccma_extension(1, 1000));
writer_harness!(c14_t_iccma_ext_two, 11, iccma_extension(2, 100)); // "w 99 99\n": 8 bytes compared + slack
writer_harness!(c14_z_apx_ext_a_b1, 8, apx_extension("a", "b1"));
writer_harness!(c14_z_apx_framework, 12, apx_framework());
writer_harness!(c14_z_apx_framework_usize_sym, 20, apx_framework_usize(None));
writer_harness!(c14_z_apx_framework_usize_rm0, 20, apx_framework_usize(Some(0)));
writer_harness!(c14_z_apx_framework_usize_rm1, 20, apx_framework_usize(Some(1)));
