//! Shared helpers: graph construction and the two mandatory stubs.
use crustabri::aa::{AAFramework, ArgumentSet};
use crustabri::verif_hooks as hooks;

/// Stub for `alloc::fmt::format`: error messages are not the subject of any property.
pub fn fmt_stub(_args: std::fmt::Arguments<'_>) -> String {
    String::new()
}

/// stub of `core::fmt::write` for harnesses whose subject is not the text (a real `write!` makes CBMC crash, status 139)
pub fn fmt_write_stub(_out: &mut dyn core::fmt::Write, _args: core::fmt::Arguments<'_>) -> core::fmt::Result {
    Ok(())
}

/// Stub of `SolvingResult::unwrap_model` for the C17 harnesses: the panic on `Unknown` (the abort) ends the path.
pub fn unwrap_model_stub(r: crustabri::sat::SolvingResult) -> Option<crustabri::sat::Assignment> {
    match r {
        crustabri::sat::SolvingResult::Satisfiable(a) => Some(a),
        crustabri::sat::SolvingResult::Unsatisfiable => None,
        crustabri::sat::SolvingResult::Unknown => {
            #[cfg(kani)]
            kani::assume(false);
            panic!(r#"cannot unwrap solving result when the solver returned "Unknown""#)
        }
    }
}

/// Stub for `std::backtrace::Backtrace::capture` (anyhow captures one per error).
pub fn bt_stub() -> std::backtrace::Backtrace {
    std::backtrace::Backtrace::disabled()
}

/// Stub for `<anyhow::Error as Drop>::drop`: error values are leaked (their drop glue drags in backtrace frames).
pub fn noop_err_drop(_e: &mut anyhow::Error) {}

/// Builds the framework with labels 0..N and the attacks of `m` in row-major order, through the function the readers use.
pub fn build_af<const N: usize>(m: &[[bool; N]; N]) -> AAFramework<usize> {
    let mut labels = [0usize; N];
    let mut i = 0;
    while i < N {
        labels[i] = i;
        i += 1;
    }
    let args = ArgumentSet::new_with_labels(&labels);
    let mut af = AAFramework::new_with_argument_set(args);
    for i in 0..N {
        for j in 0..N {
            if m[i][j] {
                hooks::new_attack_by_ids(&mut af, i, j).unwrap();
            }
        }
    }
    af
}

/// Decodes a graph code (bit i*N+j = attack i->j) into a matrix.
pub const fn graph_from_code<const N: usize>(code: u32) -> [[bool; N]; N] {
    let mut m = [[false; N]; N];
    let mut i = 0;
    while i < N {
        let mut j = 0;
        while j < N {
            m[i][j] = (code >> (i * N + j)) & 1 == 1;
            j += 1;
        }
        i += 1;
    }
    m
}
