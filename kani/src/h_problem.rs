//! C05 (the part within reach): `Query::read_problem_string` accepts exactly the 21 problem strings, case-insensitively,
//! for every ASCII string of at most 6 bytes, and never panics.
use crate::nd;
use crate::{reached, require};
use crustabri::aa::{Query, Semantics};

const QUERIES: [(&[u8], u8); 3] = [(b"se", 0), (b"dc", 1), (b"ds", 2)];
const SEMS: [(&[u8], u8); 7] = [(b"gr", 0), (b"co", 1), (b"pr", 2), (b"st", 3), (b"sst", 4), (b"stg", 5), (b"id", 6)];

fn lower(b: u8) -> u8 {
    if b >= b'A' && b <= b'Z' {
        b + 32
    } else {
        b
    }
}

fn eq_ci(s: &[u8], lit: &[u8]) -> bool {
    if s.len() != lit.len() {
        return false;
    }
    let mut ok = true;
    let mut i = 0;
    while i < lit.len() {
        ok = ok & (lower(s[i]) == lit[i]);
        i += 1;
    }
    ok
}

/// reference: split at the first hyphen, both sides compared case-insensitively with the tables
fn reference(s: &[u8]) -> Option<(u8, u8)> {
    let mut h = s.len();
    let mut i = 0;
    while i < s.len() {
        if s[i] == b'-' && h == s.len() {
            h = i;
        }
        i += 1;
    }
    if h == s.len() {
        return None;
    }
    let (l, r) = (&s[..h], &s[h + 1..]);
    let mut q = None;
    for (lit, v) in QUERIES.iter() {
        if eq_ci(l, lit) {
            q = Some(*v);
        }
    }
    let mut m = None;
    for (lit, v) in SEMS.iter() {
        if eq_ci(r, lit) {
            m = Some(*v);
        }
    }
    match (q, m) {
        (Some(a), Some(b)) => Some((a, b)),
        _ => None,
    }
}

fn qcode(q: Query) -> u8 {
    match q {
        Query::SE => 0,
        Query::DC => 1,
        Query::DS => 2,
    }
}

fn scode(s: Semantics) -> u8 {
    match s {
        Semantics::GR => 0,
        Semantics::CO => 1,
        Semantics::PR => 2,
        Semantics::ST => 3,
        Semantics::SST => 4,
        Semantics::STG => 5,
        Semantics::ID => 6,
    }
}

fn problem<const L: usize>() {
    let mut bytes = [0u8; L];
    for b in bytes.iter_mut() {
        *b = nd::ascii_byte(b"sedcgrptoi-SDx");
    }
    let len = nd::below(L as u32 + 1) as usize;
    let s = std::str::from_utf8(&bytes[..len]).unwrap();
    let got = Query::read_problem_string(s);
    let want = reference(&bytes[..len]);
    match got {
        Ok((q, m)) => {
            require!(want == Some((qcode(q), scode(m))), "C05: an accepted problem string is one of the 21 listed, with the right meaning");
            reached!(true, "some string accepted");
        }
        Err(e) => {
            require!(want.is_none(), "C05: each of the 21 listed problem strings is accepted, case-insensitively");
            reached!(true, "some string rejected");
            std::mem::forget(e);
        }
    }
}

#[cfg_attr(kani, kani::proof)]
#[cfg_attr(kani, kani::stub(alloc::fmt::format, crate::util::fmt_stub))]
#[cfg_attr(kani, kani::stub(std::backtrace::Backtrace::capture, crate::util::bt_stub))]
#[cfg_attr(kani, kani::stub(<anyhow::Error as std::ops::Drop>::drop, crate::util::noop_err_drop))]
#[cfg_attr(kani, kani::unwind(8))]
pub fn c05_q_problem_string_len6() {
    problem::<6>();
}

#[cfg_attr(kani, kani::proof)]
#[cfg_attr(kani, kani::stub(alloc::fmt::format, crate::util::fmt_stub))]
#[cfg_attr(kani, kani::stub(std::backtrace::Backtrace::capture, crate::util::bt_stub))]
#[cfg_attr(kani, kani::stub(<anyhow::Error as std::ops::Drop>::drop, crate::util::noop_err_drop))]
#[cfg_attr(kani, kani::unwind(9))]
pub fn c05_t_problem_string_len7() {
    problem::<7>();
}
