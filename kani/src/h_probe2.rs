use crate::oracle::{self, Shared};
use crate::spec::{self, Sem};
use crate::statics::{self, *};
use crate::util::*;
use crustabri::aa::Argument;
use crustabri::solvers::*;
use std::rc::Rc;

pub fn old_ext_bits(ext: &[&Argument<usize>]) -> (u32, bool) {
    let mut bits = 0u32;
    let mut ok = true;
    for a in ext.iter() {
        let b = 1u32 << (a.id() as u32 & 31);
        ok = ok & (bits & b == 0);
        bits |= b;
    }
    (bits, ok)
}

fn variant_a<const N: usize>(code: u32) {
    let g = graph_from_code::<N>(code);
    let af = build_af(&g);
    for q in 0..N {
        let sh = Rc::new(Shared::default());
        let mut solver = StableSemanticsSolver::new_with_sat_solver_factory(&af, oracle::factory::<1>(&sh));
        let (got, cert) = solver.is_credulously_accepted_with_certificate(&q);
        let expect = spec::credulous(Sem::ST, &g, 1 << q);
        assert!(!sh.overflow.get());
        assert_eq!(got, expect);
        match cert {
            Some(e) => {
                let (bits, ok) = old_ext_bits(&e);
                assert!(got & ok & spec::stable(&g, bits) & spec::bit(bits, q));
                std::mem::forget(e);
            }
            None => assert!(!got),
        }
    }
}

fn variant_b<const N: usize>(code: u32) {
    let g = graph_from_code::<N>(code);
    let af = statics::build::<N>(&g, Pres::Plain);
    for q in 0..N {
        let sh = Rc::new(Shared::default());
        let mut solver = StableSemanticsSolver::new_with_sat_solver_factory(&af, oracle::factory::<1>(&sh));
        let l = label_of(q);
        let (got, cert) = solver.is_credulously_accepted_with_certificate(&l);
        let expect = spec::credulous(Sem::ST, &g, 1 << q);
        assert!(!sh.overflow.get());
        assert_eq!(got, expect);
        match cert {
            Some(e) => {
                let (bits, ok) = statics::ext_bits::<N>(&af, Pres::Plain, &e);
                assert!(got & ok & spec::stable(&g, bits) & spec::bit(bits, q));
                std::mem::forget(e);
            }
            None => assert!(!got),
        }
    }
}

macro_rules! probe_harness {
    ($name:ident, $body:expr) => {
        #[kani::proof]
        #[kani::stub(alloc::fmt::format, crate::util::fmt_stub)]
        #[kani::stub(std::backtrace::Backtrace::capture, crate::util::bt_stub)]
        #[kani::stub(<anyhow::Error as std::ops::Drop>::drop, crate::util::noop_err_drop)]
        #[kani::unwind(6)]
        fn $name() {
            $body
        }
    };
}
probe_harness!(pa_n2, variant_a::<2>(6));
probe_harness!(pb_n2, variant_b::<2>(6));
probe_harness!(pc_n2, {
    let sp = const { spec_of::<2>(Sem::ST, 6) };
    crate::h_static::case::<2, 6, 1>(&sp, Sem::ST, Enc::Default, Kind::DC, Pres::Plain, true, CERT, crate::h_static::SINGLES, 0, false);
});
