//! C12: the framework store against a plain set model, one symbolic operation sequence.
use crate::nd;
use crate::{reached, require};
use crustabri::aa::AAFramework;

pub const L: usize = 2; // label universe {0,1} (labels 20, 21)

pub fn lab(x: usize) -> usize {
    20 + x
}

#[derive(Clone, Copy)]
pub struct Model {
    pub present: [bool; L],
    pub id: [usize; L],
    pub att: [[bool; L]; L],
    pub next_id: usize,
    /// insertion stamp of each attack (order of iter_attacks is not part of the property; kept for diagnostics)
    pub n_att: usize,
}

impl Model {
    pub fn new() -> Self {
        Model { present: [false; L], id: [0; L], att: [[false; L]; L], next_id: 0, n_att: 0 }
    }
    pub fn n_args(&self) -> usize {
        let mut n = 0;
        for x in 0..L {
            n += self.present[x] as usize;
        }
        n
    }
    pub fn n_atts(&self) -> usize {
        let mut n = 0;
        for x in 0..L {
            for y in 0..L {
                n += self.att[x][y] as usize;
            }
        }
        n
    }
}

/// Compares every observable of the store with the model.
pub fn compare(af: &AAFramework<usize>, m: &Model) {
    compare_group(af, m, true, true);
}

/// `counts`: sizes, identifiers, lookups; `iterators`: the three attack iterators.  (Two groups so that a harness can
/// keep its formula small.)
pub fn compare_group(af: &AAFramework<usize>, m: &Model, counts: bool, iterators: bool) {
    if counts {
        compare_counts(af, m);
    }
    if iterators {
        compare_iterators(af, m);
    }
}

fn compare_counts(af: &AAFramework<usize>, m: &Model) {
    require!(af.n_arguments() == m.n_args(), "C12: n_arguments equals the number of live arguments of the set model");
    require!(af.n_attacks() == m.n_atts(), "C12: n_attacks equals the number of live attacks of the set model");
    require!(
        af.max_argument_id() == if m.next_id == 0 { None } else { Some(m.next_id - 1) },
        "C12: max_argument_id is the last identifier handed out"
    );
    require!(af.argument_set().len() == m.n_args(), "C12: the argument set has the model's size");
    require!(af.argument_set().iter().count() == m.n_args(), "C12: iterating the arguments yields the live ones");
    for x in 0..L {
        let r = af.argument_set().get_argument(&lab(x));
        require!(r.is_ok() == m.present[x], "C12: an argument is known exactly when the model contains it");
        if let Ok(a) = &r {
            require!(a.id() == m.id[x], "C12: identifiers are stable for the life of an argument and never reused");
            require!(*a.label() == lab(x), "C12: an argument keeps its label");
        }
        std::mem::forget(r);
    }
    for i in 0..m.next_id {
        let mut live = false;
        for x in 0..L {
            live = live | (m.present[x] & (m.id[x] == i));
        }
        require!(af.argument_set().has_argument_with_id(i) == live, "C12: has_argument_with_id agrees with the model");
    }
    require!(!af.argument_set().has_argument_with_id(m.next_id), "C12: no identifier beyond the last one handed out");
}

fn compare_iterators(af: &AAFramework<usize>, m: &Model) {
    let mut seen = [[0u8; L]; L];
    let mut count = 0;
    for a in af.iter_attacks() {
        count += 1;
        for x in 0..L {
            for y in 0..L {
                if *a.attacker().label() == lab(x) && *a.attacked().label() == lab(y) {
                    seen[x][y] += 1;
                }
            }
        }
    }
    require!(count == m.n_atts(), "C12: iter_attacks yields exactly the live attacks");
    for x in 0..L {
        for y in 0..L {
            require!(seen[x][y] == m.att[x][y] as u8, "C12: iter_attacks yields each live attack once and nothing else");
        }
    }
    for x in 0..L {
        let r = af.argument_set().get_argument(&lab(x));
        require!(r.is_ok() == m.present[x], "C12: an argument is known exactly when the model contains it");
        if let Ok(a) = &r {
            require!(a.id() == m.id[x], "C12: identifiers are stable for the life of an argument and never reused");
            require!(*a.label() == lab(x), "C12: an argument keeps its label");
            let mut from = [0u8; L];
            let mut nf = 0;
            for t in af.iter_attacks_from(a) {
                nf += 1;
                require!(t.attacker().id() == a.id(), "C12: iter_attacks_from yields attacks of that attacker only");
                for y in 0..L {
                    if *t.attacked().label() == lab(y) {
                        from[y] += 1;
                    }
                }
            }
            let mut to = [0u8; L];
            let mut nt = 0;
            for t in af.iter_attacks_to(a) {
                nt += 1;
                require!(t.attacked().id() == a.id(), "C12: iter_attacks_to yields attacks on that argument only");
                for y in 0..L {
                    if *t.attacker().label() == lab(y) {
                        to[y] += 1;
                    }
                }
            }
            let mut ef = 0;
            let mut et = 0;
            for y in 0..L {
                require!(from[y] == m.att[x][y] as u8, "C12: iter_attacks_from agrees with the model's row");
                require!(to[y] == m.att[y][x] as u8, "C12: iter_attacks_to agrees with the model's column");
                ef += m.att[x][y] as usize;
                et += m.att[y][x] as usize;
            }
            require!(nf == ef && nt == et, "C12: per-argument attack iterators yield nothing else");
        }
        std::mem::forget(r);
    }
}

/// One operation chosen by the nondeterminism layer, applied to both.
pub fn step(af: &mut AAFramework<usize>, m: &mut Model, kinds: u32) {
    let kind = nd::below(kinds);
    let x = nd::below(L as u32) as usize;
    let y = nd::below(L as u32) as usize;
    apply(af, m, kind, x, y);
}

/// Applies one operation to the store and to the model, checking the operation's own result.
pub fn apply(af: &mut AAFramework<usize>, m: &mut Model, kind: u32, x: usize, y: usize) {
    match kind {
        0 => {
            af.new_argument(lab(x));
            if !m.present[x] {
                m.present[x] = true;
                m.id[x] = m.next_id;
                m.next_id += 1;
            }
        }
        1 => {
            let r = af.remove_argument(&lab(x));
            require!(r.is_ok() == m.present[x], "C12: remove_argument fails exactly on an unknown argument");
            if m.present[x] {
                m.present[x] = false;
                for k in 0..L {
                    m.att[x][k] = false;
                    m.att[k][x] = false;
                }
            }
            std::mem::forget(r);
        }
        2 => {
            let r = af.new_attack(&lab(x), &lab(y));
            require!(r.is_ok() == (m.present[x] & m.present[y]), "C12: new_attack fails exactly on an unknown endpoint");
            if m.present[x] & m.present[y] {
                m.att[x][y] = true;
            }
            std::mem::forget(r);
        }
        _ => {
            let r = af.remove_attack(&lab(x), &lab(y));
            require!(
                r.is_ok() == (m.present[x] & m.present[y] & m.att[x][y]),
                "C12: remove_attack fails exactly on an unknown attack"
            );
            if m.present[x] & m.present[y] {
                m.att[x][y] = false;
            }
            std::mem::forget(r);
        }
    }
}

/// `K` arbitrary operations on an empty store; every observable is compared with the set model at the end (the
/// intermediate states are the final states of the shorter histories, which have their own harnesses), the error
/// behaviour of each operation is checked when it is applied.
pub fn history<const K: usize>() {
    history_from::<K>(&[]);
}

/// The same after a concrete prefix of operations (so that the symbolic operations start from a populated store).
pub fn history_from<const K: usize>(prefix: &[(u32, usize, usize)]) {
    let mut af: AAFramework<usize> = AAFramework::default();
    let mut m = Model::new();
    for (k, x, y) in prefix.iter() {
        apply(&mut af, &mut m, *k, *x, *y);
    }
    for _ in 0..K {
        step(&mut af, &mut m, 4);
    }
    compare(&af, &m);
    reached!(m.n_atts() > 0, "a history with a live attack at the end");
    reached!(m.next_id > m.n_args(), "a history with a removed argument");
    std::mem::forget(af);
}

/// One operation of a CONCRETE kind with symbolic operands from a concrete reachable pre-state (given as a prefix of
/// operations); one group of observables compared afterwards.  The pre-states are enumerated by the harness list, the
/// operands are decided by the solver.
pub fn one_step(prefix: &[(u32, usize, usize)], kind: u32, counts: bool, iterators: bool) {
    let mut af: AAFramework<usize> = AAFramework::default();
    let mut m = Model::new();
    for (k, x, y) in prefix.iter() {
        apply(&mut af, &mut m, *k, *x, *y);
    }
    let x = nd::below(L as u32) as usize;
    let y = if kind >= 2 { nd::below(L as u32) as usize } else { 0 };
    apply(&mut af, &mut m, kind, x, y);
    compare_group(&af, &m, counts, iterators);
    std::mem::forget(af);
}
