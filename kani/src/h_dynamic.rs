//! C08 / C09 harnesses: concrete update/query histories on the real dynamic solvers, demonic oracle symbolic.
use crate::dynamics::*;
use crate::oracle::Shared;
use std::rc::Rc;

// events: (kind, x, y, with_certificate); 0 new_argument(x) 1 remove_argument(x) 2 new_attack(x,y) 3 remove_attack(x,y) 4 DC(x) 5 DS(x)
const A: usize = 0;
const B: usize = 1;

/// a<->b built, DC a with certificate, then DC a again (answered from the cache)
static H_CO_1: [Event; 6] = [(0, A, 0, false), (0, B, 0, false), (2, A, B, false), (2, B, A, false), (4, A, 0, true), (4, A, 0, true)];
/// a<->b, DC b, the attack a->b removed, DC a (no longer acceptable: b attacks it, nothing defends it)
static H_CO_2: [Event; 7] = [(0, A, 0, false), (0, B, 0, false), (2, A, B, false), (2, B, A, false), (4, B, 0, false), (3, A, B, false), (4, A, 0, true)];
/// a->b, DS b with certificate, b removed and re-added under a new id, DS b with certificate
static H_ST_1: [Event; 7] = [(0, A, 0, false), (0, B, 0, false), (2, A, B, false), (5, B, 0, true), (1, B, 0, false), (0, B, 0, false), (5, B, 0, true)];
/// self-attacker: no stable extension (DC NO, DS YES), repaired by removing the attack
static H_ST_2: [Event; 6] = [(0, A, 0, false), (2, A, A, false), (4, A, 0, true), (5, A, 0, true), (3, A, A, false), (4, A, 0, true)];
/// a, b; DC a caches {a,b} as accepted; b->a added: the cache must not answer DC a any more
static H_ST_3: [Event; 5] = [(0, A, 0, false), (0, B, 0, false), (4, A, 0, true), (2, B, A, false), (4, A, 0, false)];
/// a->b, DC b (NO), the attacker a removed, DC b (YES): the attacked argument must be re-encoded
static H_CO_4: [Event; 6] = [(0, A, 0, false), (0, B, 0, false), (2, A, B, false), (4, B, 0, false), (1, A, 0, false), (4, B, 0, true)];
static H_ST_4: [Event; 6] = [(0, A, 0, false), (0, B, 0, false), (2, A, B, false), (5, B, 0, true), (1, A, 0, false), (5, B, 0, true)];
/// redundant and invalid updates interleaved with queries (C09)
static H_CO_BAD: [Event; 8] = [(1, A, 0, false), (0, A, 0, false), (0, A, 0, false), (2, A, B, false), (0, B, 0, false), (2, B, A, false), (2, B, A, false), (4, A, 0, true)];
static H_ST_BAD: [Event; 8] = [(3, A, A, false), (0, A, 0, false), (0, B, 0, false), (0, A, 0, false), (2, A, B, false), (1, B, 0, false), (1, B, 0, false), (5, A, 0, true)];
/// three labels: the most recent argument is removed, an existing one re-declared, a new one created and queried
const C: usize = 2;
static H_CO_BAD3: [Event; 6] = [(0, A, 0, false), (0, B, 0, false), (1, B, 0, false), (0, A, 0, false), (0, C, 0, false), (4, C, 0, true)];
static H_ST_BAD3: [Event; 7] = [(0, A, 0, false), (0, B, 0, false), (2, B, A, false), (1, B, 0, false), (0, A, 0, false), (0, C, 0, false), (5, C, 0, true)];

fn run<const WORDS: usize>(which: Dyn, events: &'static [Event], allow_bad: bool) {
    let sh = Rc::new(Shared::default());
    let plan = Plan { events: events.len(), allow_bad, labels: 3, arg_factor: 1.0, fixed: Some(events) };
    history::<WORDS>(which, plan, &sh);
}

macro_rules! dynamic_harness {
    ($name:ident, $which:expr, $events:expr, $bad:expr, $unwind:literal, $words:literal) => {
        #[cfg_attr(kani, kani::proof)]
        #[cfg_attr(kani, kani::stub(alloc::fmt::format, crate::util::fmt_stub))]
        #[cfg_attr(kani, kani::stub(std::backtrace::Backtrace::capture, crate::util::bt_stub))]
        #[cfg_attr(kani, kani::stub(<anyhow::Error as std::ops::Drop>::drop, crate::util::noop_err_drop))]
        #[cfg_attr(kani, kani::unwind($unwind))]
        pub fn $name() {
            run::<$words>($which, &$events, $bad);
        }
    };
}

dynamic_harness!(c08_q_complete_h1, Dyn::Complete, H_CO_1, false, 10, 2);
dynamic_harness!(c08_q_stable_h3, Dyn::Stable, H_ST_3, false, 10, 2);
dynamic_harness!(c08_q_complete_h4, Dyn::Complete, H_CO_4, false, 10, 2);
dynamic_harness!(c08_t_stable_h4, Dyn::Stable, H_ST_4, false, 10, 2);
dynamic_harness!(c08_t_complete_h2, Dyn::Complete, H_CO_2, false, 10, 2);
dynamic_harness!(c08_t_stable_h1, Dyn::Stable, H_ST_1, false, 10, 2);
dynamic_harness!(c08_t_stable_h2, Dyn::Stable, H_ST_2, false, 10, 2);
dynamic_harness!(c08_t_dummy_st_h3, Dyn::DummySt, H_ST_3, false, 10, 2);
dynamic_harness!(c09_q_complete_bad, Dyn::Complete, H_CO_BAD, true, 10, 2);
dynamic_harness!(c09_q_stable_bad3, Dyn::Stable, H_ST_BAD3, true, 10, 4);
dynamic_harness!(c09_t_stable_bad, Dyn::Stable, H_ST_BAD, true, 10, 2);
dynamic_harness!(c09_t_complete_bad3, Dyn::Complete, H_CO_BAD3, true, 10, 4);
