//! C08 / C09 harnesses: concrete update/query histories on the real dynamic solvers, demonic oracle symbolic.
use crate::dynamics::*;
use crate::oracle::Shared;
use std::rc::Rc;

// events: (kind, x, y, with_certificate); 0 new_argument(x) 1 remove_argument(x) 2 new_attack(x,y) 3 remove_attack(x,y) 4 DC(x) 5 DS(x)
const A: usize = 0;
const B: usize = 1;

// Every history below keeps all queries but the last one UNSATISFIABLE for the backend (credulous NO / skeptical YES):
// measured, a second query after a query that returned a (symbolic) model makes CBMC run for more than 30 minutes,
// whereas a history whose only symbolic model is the last one costs about as much as one static query.

/// a->b; DC b is NO (the attack gets encoded); the attacker a is removed; DC b must now be YES with certificate {b}
static H_CO_RMATTACKER: [Event; 6] = [(0, A, 0, false), (0, B, 0, false), (2, A, B, false), (4, B, 0, false), (1, A, 0, false), (4, B, 0, true)];
static H_ST_RMATTACKER: [Event; 6] = [(0, A, 0, false), (0, B, 0, false), (2, A, B, false), (4, B, 0, true), (1, A, 0, false), (4, B, 0, true)];
/// a->b; DC b NO; the attack is removed; DC b YES
static H_CO_RMATTACK: [Event; 6] = [(0, A, 0, false), (0, B, 0, false), (2, A, B, false), (4, B, 0, true), (3, A, B, false), (4, B, 0, true)];
/// a->b; b removed and re-added under a new id (no attack any more); DS b must be YES... asked as DC with certificate {a,b}
static H_ST_READD: [Event; 6] = [(0, A, 0, false), (0, B, 0, false), (2, A, B, false), (1, B, 0, false), (0, B, 0, false), (4, B, 0, true)];
/// self-attacker: no stable extension (DC a NO); the self-attack is removed: DC a YES
static H_ST_SELF: [Event; 5] = [(0, A, 0, false), (2, A, A, false), (4, A, 0, true), (3, A, A, false), (4, A, 0, true)];
/// a, b, b->a; DS a is NO with certificate {b} (single query, skeptical path with a model)
static H_ST_DS: [Event; 4] = [(0, A, 0, false), (0, B, 0, false), (2, B, A, false), (5, A, 0, true)];
/// a<->b built step by step, DC a YES with certificate {a}
static H_CO_MUTUAL: [Event; 5] = [(0, A, 0, false), (0, B, 0, false), (2, A, B, false), (2, B, A, false), (4, A, 0, true)];
/// redundant and invalid updates, one query at the end (C09)
static H_CO_BAD: [Event; 9] = [(1, A, 0, false), (0, A, 0, false), (0, A, 0, false), (2, A, B, false), (0, B, 0, false), (2, B, A, false), (2, B, A, false), (3, A, B, false), (4, B, 0, true)];
static H_ST_BAD: [Event; 9] = [(3, A, A, false), (0, A, 0, false), (0, B, 0, false), (0, A, 0, false), (2, A, B, false), (1, B, 0, false), (1, B, 0, false), (2, A, B, false), (5, A, 0, false)];
/// three labels: the most recent argument is removed, an existing one re-declared, a new one created and queried
const C: usize = 2;
static H_CO_BAD3: [Event; 6] = [(0, A, 0, false), (0, B, 0, false), (1, B, 0, false), (0, A, 0, false), (0, C, 0, false), (4, C, 0, true)];
static H_ST_BAD3: [Event; 7] = [(0, A, 0, false), (0, B, 0, false), (2, B, A, false), (1, B, 0, false), (0, A, 0, false), (0, C, 0, false), (4, C, 0, true)];

fn run<const WORDS: usize>(which: Dyn, events: &'static [Event], allow_bad: bool) {
    let sh = Rc::new(Shared::default());
    let plan = Plan { events: events.len(), allow_bad, labels: 3, arg_factor: 1.0, fixed: Some(events) };
    history::<WORDS>(which, plan, &sh);
}

macro_rules! dynamic_harness {
    ($name:ident, $which:expr, $events:expr, $bad:expr, $unwind:literal, $words:literal) => {
        #[cfg_attr(kani, kani::proof)]
        #[cfg_attr(kani, kani::stub(alloc::fmt::format, crate::util::fmt_stub))]
        #[cfg_attr(kani, kani::stub(std::backtrace::Backtrace::capture, crate::util::bt_stub))]
        #[cfg_attr(kani, kani::stub(<anyhow::Error as std::ops::Drop>::drop, crate::util::noop_err_drop))]
        #[cfg_attr(kani, kani::unwind($unwind))]
        pub fn $name() {
            run::<$words>($which, &$events, $bad);
        }
    };
}

dynamic_harness!(c08_q_complete_rmattacker, Dyn::Complete, H_CO_RMATTACKER, false, 10, 2);
dynamic_harness!(c08_q_stable_rmattacker, Dyn::Stable, H_ST_RMATTACKER, false, 10, 2);
dynamic_harness!(c08_q_stable_ds, Dyn::Stable, H_ST_DS, false, 10, 2);
dynamic_harness!(c08_q_complete_mutual, Dyn::Complete, H_CO_MUTUAL, false, 10, 2);
dynamic_harness!(c08_t_complete_rmattack, Dyn::Complete, H_CO_RMATTACK, false, 10, 2);
dynamic_harness!(c08_t_stable_readd, Dyn::Stable, H_ST_READD, false, 10, 2);
dynamic_harness!(c08_t_stable_self, Dyn::Stable, H_ST_SELF, false, 10, 2);
dynamic_harness!(c08_t_dummy_st_rmattacker, Dyn::DummySt, H_ST_RMATTACKER, false, 10, 2);
dynamic_harness!(c09_q_complete_bad, Dyn::Complete, H_CO_BAD, true, 10, 2);
dynamic_harness!(c09_q_stable_bad3, Dyn::Stable, H_ST_BAD3, true, 10, 4);
dynamic_harness!(c09_q_complete_bad3, Dyn::Complete, H_CO_BAD3, true, 10, 4);
dynamic_harness!(c09_t_stable_bad, Dyn::Stable, H_ST_BAD, true, 10, 2);
