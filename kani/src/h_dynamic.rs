//! C08 / C09 harnesses: concrete update/query histories on the real dynamic solvers, demonic oracle symbolic.
use crate::dynamics::*;
use crate::oracle::Shared;
use std::rc::Rc;

// events: (kind, x, y, with_certificate); 0 new_argument(x) 1 remove_argument(x) 2 new_attack(x,y) 3 remove_attack(x,y) 4 DC(x) 5 DS(x)
const A: usize = 0;
const B: usize = 1;

/// a<->b built, DC a (cached), DC b with certificate, the attack b->a removed, DC b, DC a with certificate
static H_CO_1: [Event; 9] = [(0, A, 0, false), (0, B, 0, false), (2, A, B, false), (2, B, A, false), (4, A, 0, false), (4, B, 0, true), (3, B, A, false), (4, B, 0, false), (4, A, 0, true)];
/// a->b, DS b, DC a with certificate, b removed and re-added (new id), DS b with certificate, DC b
static H_ST_1: [Event; 9] = [(0, A, 0, false), (0, B, 0, false), (2, A, B, false), (5, B, 0, false), (4, A, 0, true), (1, B, 0, false), (0, B, 0, false), (5, B, 0, true), (4, B, 0, false)];
/// self-attacker: no stable extension, then repaired by removing the attack
static H_ST_2: [Event; 7] = [(0, A, 0, false), (2, A, A, false), (4, A, 0, true), (5, A, 0, true), (3, A, A, false), (4, A, 0, true), (5, A, 0, false)];
/// redundant and invalid updates interleaved with queries (C09)
static H_CO_BAD: [Event; 10] = [(1, A, 0, false), (0, A, 0, false), (0, A, 0, false), (2, A, B, false), (0, B, 0, false), (2, B, A, false), (2, B, A, false), (4, A, 0, true), (3, A, B, false), (4, B, 0, true)];
static H_ST_BAD: [Event; 10] = [(3, A, A, false), (0, A, 0, false), (0, B, 0, false), (0, A, 0, false), (2, A, B, false), (1, B, 0, false), (1, B, 0, false), (5, A, 0, true), (2, A, B, false), (4, A, 0, true)];

fn run(which: Dyn, events: &'static [Event], allow_bad: bool) {
    let sh = Rc::new(Shared::default());
    let plan = Plan { events: events.len(), allow_bad, labels: 2, arg_factor: 1.0, fixed: Some(events) };
    history::<2>(which, plan, &sh);
}

macro_rules! dynamic_harness {
    ($name:ident, $which:expr, $events:expr, $bad:expr, $unwind:literal) => {
        #[cfg_attr(kani, kani::proof)]
        #[cfg_attr(kani, kani::stub(alloc::fmt::format, crate::util::fmt_stub))]
        #[cfg_attr(kani, kani::stub(std::backtrace::Backtrace::capture, crate::util::bt_stub))]
        #[cfg_attr(kani, kani::stub(<anyhow::Error as std::ops::Drop>::drop, crate::util::noop_err_drop))]
        #[cfg_attr(kani, kani::unwind($unwind))]
        pub fn $name() {
            run($which, &$events, $bad);
        }
    };
}

dynamic_harness!(c08_q_complete_h1, Dyn::Complete, H_CO_1, false, 10);
dynamic_harness!(c08_q_stable_h1, Dyn::Stable, H_ST_1, false, 10);
dynamic_harness!(c08_t_stable_h2, Dyn::Stable, H_ST_2, false, 10);
dynamic_harness!(c08_t_dummy_st_h1, Dyn::DummySt, H_ST_1, false, 10);
dynamic_harness!(c09_q_complete_bad, Dyn::Complete, H_CO_BAD, true, 10);
dynamic_harness!(c09_q_stable_bad, Dyn::Stable, H_ST_BAD, true, 10);
