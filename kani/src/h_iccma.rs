//! C13 (ICCMA'23 reader): never panics and reads exactly the declared attacks, for files made of a concrete preamble and
//! an attack line with symbolic bytes.
use crate::nd;
use crate::{reached, require};
use crustabri::io::{Iccma23Reader, InstanceReader};

const ALPHA: &[u8] = b"0123 +-\t9a\n#";

/// reference: value of a token as an argument index (the format allows plain decimal numbers 1..=n only)
fn token_value(t: &[u8]) -> Option<usize> {
    if t.is_empty() {
        return None;
    }
    let mut v: usize = 0;
    for c in t.iter() {
        if *c < b'0' || *c > b'9' {
            return None;
        }
        v = v * 10 + (*c - b'0') as usize;
    }
    Some(v)
}

/// `p af 2` followed by one line `<t1> <t2>` where t1, t2 are single symbolic bytes
fn attack_line_1x1() {
    let a = nd::ascii_byte(ALPHA);
    let b = nd::ascii_byte(ALPHA);
    let buf = [b'p', b' ', b'a', b'f', b' ', b'2', b'\n', a, b' ', b, b'\n'];
    let reader = Iccma23Reader::default();
    let r = reader.read(&mut &buf[..]);
    let da = token_value(&[a]);
    let db = token_value(&[b]);
    let well_formed = matches!((da, db), (Some(x), Some(y)) if x >= 1 && x <= 2 && y >= 1 && y <= 2);
    match &r {
        Ok(af) => {
            // accepted: either a well-formed attack line, or a line that is a comment / blank (the bytes can spell those)
            let is_comment = a == b'#';
            let blankish = (a == b'\n') | (b == b'\n');
            require!(well_formed | is_comment | blankish, "C13: an ill-formed attack line (index out of range, not a number) is rejected");
            require!(af.n_arguments() == 2, "C13: the framework has exactly the declared arguments");
            if well_formed {
                require!(af.n_attacks() == 1, "C13: the framework has exactly the declared attacks");
                let att = af.iter_attacks().next().unwrap();
                require!(*att.attacker().label() == da.unwrap() && *att.attacked().label() == db.unwrap(), "C13: the declared attack is read with the right endpoints");
            }
            reached!(well_formed, "a well-formed attack line was accepted");
        }
        Err(_) => {
            require!(!well_formed, "C13: every well-formed file is accepted");
        }
    }
    std::mem::forget(r);
}

#[cfg_attr(kani, kani::proof)]
#[cfg_attr(kani, kani::stub(alloc::fmt::format, crate::util::fmt_stub))]
#[cfg_attr(kani, kani::stub(std::backtrace::Backtrace::capture, crate::util::bt_stub))]
#[cfg_attr(kani, kani::stub(<anyhow::Error as std::ops::Drop>::drop, crate::util::noop_err_drop))]
#[cfg_attr(kani, kani::unwind(14))]
pub fn c13_p_iccma_attack_line() {
    attack_line_1x1();
}

/// `p af 2`, then the attack line `<t> 2` where t is ONE symbolic byte that is neither white space nor a line
/// terminator nor '#': the line structure stays concrete, only the token's value is symbolic
fn attack_token() {
    let a = nd::ascii_byte(b"0123+-9a");
    nd::assume(a > b' ' && a != b'#' && a < 127);
    let buf = [b'p', b' ', b'a', b'f', b' ', b'2', b'\n', a, b' ', b'2', b'\n'];
    let reader = Iccma23Reader::default();
    let r = reader.read(&mut &buf[..]);
    let well_formed = a == b'1' || a == b'2';
    match &r {
        Ok(af) => {
            require!(well_formed, "C13: an attack line whose index is out of range or not a number is rejected");
            require!(af.n_arguments() == 2 && af.n_attacks() == 1, "C13: exactly the declared arguments and attacks");
            let att = af.iter_attacks().next().unwrap();
            require!(*att.attacker().label() == (a - b'0') as usize && *att.attacked().label() == 2, "C13: the declared attack is read with the right endpoints");
        }
        Err(_) => require!(!well_formed, "C13: every well-formed file is accepted"),
    }
    std::mem::forget(r);
}

#[cfg_attr(kani, kani::proof)]
#[cfg_attr(kani, kani::stub(alloc::fmt::format, crate::util::fmt_stub))]
#[cfg_attr(kani, kani::stub(std::backtrace::Backtrace::capture, crate::util::bt_stub))]
#[cfg_attr(kani, kani::stub(<anyhow::Error as std::ops::Drop>::drop, crate::util::noop_err_drop))]
#[cfg_attr(kani, kani::unwind(14))]
pub fn c13_p2_iccma_attack_token() {
    attack_token();
}

