//! C10b: the variable layout of the encoders for a symbolic number of arguments (pure arithmetic, default BMC).
use crate::nd;
use crate::require;
use crate::statics::{encoder, Enc};
use crustabri::verif_hooks as hooks;

fn layout(e: Enc, with_range: bool) {
    let n = 1 + nd::below_capped((1 << 20) - 1, 12) as usize;
    let i = nd::below_capped(n as u32, 12) as usize;
    let j = nd::below_capped(n as u32, 12) as usize;
    let k = nd::below_capped(n as u32, 12) as usize;
    let enc = encoder(e);
    let a = hooks::new_argument(i, 0usize);
    let b = hooks::new_argument(j, 0usize);
    let li = isize::from(enc.arg_to_lit(&a));
    let lj = isize::from(enc.arg_to_lit(&b));
    require!(li > 0 && lj > 0, "C10: arguments are mapped to positive literals");
    require!((i == j) == (li == lj), "C10: distinct arguments are mapped to distinct literals");
    if with_range {
        let f = enc.first_range_var(n);
        require!(f >= 1, "C10: range variables are valid variables");
        let rk = (f + k) as isize;
        require!(rk != li, "C10: range variables never collide with argument variables");
        // the auxiliary (disjunction) variables of the aux_var family are the odd variables below 2n; range variables lie above
        require!(rk as usize > n, "C10: range variables lie above the argument block");
    }
    std::mem::forget(enc);
}

macro_rules! layout_harness {
    ($name:ident, $enc:expr, $range:expr) => {
        #[cfg_attr(kani, kani::proof)]
        #[cfg_attr(kani, kani::stub(alloc::fmt::format, crate::util::fmt_stub))]
        #[cfg_attr(kani, kani::unwind(2))]
        pub fn $name() {
            layout($enc, $range);
        }
    };
}

layout_harness!(layout_q_aux_cf, Enc::AuxCf, true);
layout_harness!(layout_q_aux_adm, Enc::AuxAdm, true);
layout_harness!(layout_q_aux_co, Enc::AuxCo, true);
layout_harness!(layout_q_exp_cf, Enc::ExpCf, true);
layout_harness!(layout_q_exp_co, Enc::ExpCo, true);
layout_harness!(layout_q_hybrid, Enc::Hybrid, true);

#[cfg_attr(kani, kani::proof)]
#[cfg_attr(kani, kani::stub(alloc::fmt::format, crate::util::fmt_stub))]
#[cfg_attr(kani, kani::unwind(2))]
pub fn layout_q_stable() {
    use crustabri::encodings::{ConstraintsEncoder, DefaultStableConstraintsEncoder};
    let i = nd::below_capped(1 << 20, 12) as usize;
    let j = nd::below_capped(1 << 20, 12) as usize;
    let enc = DefaultStableConstraintsEncoder::default();
    let li = isize::from(ConstraintsEncoder::<usize>::arg_to_lit(&enc, &hooks::new_argument(i, 0usize)));
    let lj = isize::from(ConstraintsEncoder::<usize>::arg_to_lit(&enc, &hooks::new_argument(j, 0usize)));
    require!(li > 0 && lj > 0, "C10: arguments are mapped to positive literals");
    require!((i == j) == (li == lj), "C10: distinct arguments are mapped to distinct literals");
}
