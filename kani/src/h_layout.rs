//! C10b: the variable layout of the encoders for a symbolic number of arguments (pure arithmetic, default BMC).
use crate::statics::{encoder, Enc};
use crustabri::verif_hooks as hooks;

fn layout(e: Enc, with_range: bool) {
    let n: usize = kani::any();
    kani::assume(n >= 1 && n < (1 << 20));
    let i: usize = kani::any();
    let j: usize = kani::any();
    let k: usize = kani::any();
    kani::assume(i < n && j < n && k < n);
    let enc = encoder(e);
    let a = hooks::new_argument(i, 0usize);
    let b = hooks::new_argument(j, 0usize);
    let li = isize::from(enc.arg_to_lit(&a));
    let lj = isize::from(enc.arg_to_lit(&b));
    assert!(li > 0 && lj > 0, "C10: arguments are mapped to positive literals");
    assert!((i == j) == (li == lj), "C10: distinct arguments are mapped to distinct literals");
    if with_range {
        let f = enc.first_range_var(n);
        assert!(f >= 1, "C10: range variables are valid variables");
        let rk = (f + k) as isize;
        assert!(rk != li, "C10: range variables never collide with argument variables");
        // the auxiliary (disjunction) variables of the aux_var family are the odd variables below 2n; range variables lie above
        assert!(rk as usize > n, "C10: range variables lie above the argument block");
    }
    std::mem::forget(enc);
}

macro_rules! layout_harness {
    ($name:ident, $enc:expr, $range:expr) => {
        #[kani::proof]
        #[kani::stub(alloc::fmt::format, crate::util::fmt_stub)]
        #[kani::unwind(2)]
        fn $name() {
            layout($enc, $range);
        }
    };
}

layout_harness!(layout_q_aux_cf, Enc::AuxCf, true);
layout_harness!(layout_q_aux_adm, Enc::AuxAdm, true);
layout_harness!(layout_q_aux_co, Enc::AuxCo, true);
layout_harness!(layout_q_exp_cf, Enc::ExpCf, true);
layout_harness!(layout_q_exp_co, Enc::ExpCo, true);
layout_harness!(layout_q_hybrid, Enc::Hybrid, true);

#[kani::proof]
#[kani::stub(alloc::fmt::format, crate::util::fmt_stub)]
#[kani::unwind(2)]
fn layout_q_stable() {
    use crustabri::encodings::{ConstraintsEncoder, DefaultStableConstraintsEncoder};
    let i: usize = kani::any();
    let j: usize = kani::any();
    kani::assume(i < (1 << 20) && j < (1 << 20));
    let enc = DefaultStableConstraintsEncoder::default();
    let li = isize::from(ConstraintsEncoder::<usize>::arg_to_lit(&enc, &hooks::new_argument(i, 0usize)));
    let lj = isize::from(ConstraintsEncoder::<usize>::arg_to_lit(&enc, &hooks::new_argument(j, 0usize)));
    assert!(li > 0 && lj > 0, "C10: arguments are mapped to positive literals");
    assert!((i == j) == (li == lj), "C10: distinct arguments are mapped to distinct literals");
}
