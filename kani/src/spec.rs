//! Reference definitions of Dung's semantics over bit-sets (argument i = bit i), written branch-free.
//! `att[i][j]` = i attacks j.

pub type G<const N: usize> = [[bool; N]; N];

#[inline(always)]
pub const fn bit(s: u32, i: usize) -> bool {
    (s >> i) & 1 == 1
}

/// set of arguments attacked by some member of `s`
pub const fn attacked_by<const N: usize>(g: &G<N>, s: u32) -> u32 {
    let mut r = 0u32;
    let mut i = 0;
    while i < N {
        let mut j = 0;
        while j < N {
            r |= ((g[i][j] & bit(s, i)) as u32) << j;
            j += 1;
        }
        i += 1;
    }
    r
}

/// set of attackers of argument `a`
pub const fn attackers<const N: usize>(g: &G<N>, a: usize) -> u32 {
    let mut r = 0u32;
    let mut i = 0;
    while i < N {
        r |= (g[i][a] as u32) << i;
        i += 1;
    }
    r
}

pub const fn full<const N: usize>() -> u32 {
    (1u32 << N) - 1
}

pub const fn conflict_free<const N: usize>(g: &G<N>, s: u32) -> bool {
    attacked_by(g, s) & s == 0
}

/// set of arguments all of whose attackers are attacked by `s`
pub const fn defended_by<const N: usize>(g: &G<N>, s: u32) -> u32 {
    let atk = attacked_by(g, s);
    let mut r = 0u32;
    let mut a = 0;
    while a < N {
        r |= ((attackers(g, a) & !atk == 0) as u32) << a;
        a += 1;
    }
    r
}

pub const fn admissible<const N: usize>(g: &G<N>, s: u32) -> bool {
    conflict_free(g, s) & (s & !defended_by(g, s) == 0)
}

pub const fn complete<const N: usize>(g: &G<N>, s: u32) -> bool {
    conflict_free(g, s) & (defended_by(g, s) == s)
}

pub const fn range<const N: usize>(g: &G<N>, s: u32) -> u32 {
    s | attacked_by(g, s)
}

pub const fn stable<const N: usize>(g: &G<N>, s: u32) -> bool {
    conflict_free(g, s) & (range(g, s) == full::<N>())
}

pub const fn grounded<const N: usize>(g: &G<N>) -> u32 {
    let mut s = 0u32;
    let mut k = 0;
    while k < N {
        s = defended_by(g, s);
        k += 1;
    }
    s
}

pub const fn preferred<const N: usize>(g: &G<N>, s: u32) -> bool {
    let mut ok = admissible(g, s);
    let mut t = 0u32;
    while t < (1 << N) {
        // no admissible strict superset
        ok = ok & !((t & s == s) & (t != s) & admissible(g, t));
        t += 1;
    }
    ok
}

pub const fn semi_stable<const N: usize>(g: &G<N>, s: u32) -> bool {
    let rs = range(g, s);
    let mut ok = complete(g, s);
    let mut t = 0u32;
    while t < (1 << N) {
        let rt = range(g, t);
        ok = ok & !((rt & rs == rs) & (rt != rs) & complete(g, t));
        t += 1;
    }
    ok
}

pub const fn stage<const N: usize>(g: &G<N>, s: u32) -> bool {
    let rs = range(g, s);
    let mut ok = conflict_free(g, s);
    let mut t = 0u32;
    while t < (1 << N) {
        let rt = range(g, t);
        ok = ok & !((rt & rs == rs) & (rt != rs) & conflict_free(g, t));
        t += 1;
    }
    ok
}

/// the ideal extension: union of the admissible sets included in every preferred extension
pub const fn ideal<const N: usize>(g: &G<N>) -> u32 {
    let mut inter = full::<N>();
    let mut t = 0u32;
    while t < (1 << N) {
        let p = preferred(g, t);
        inter &= !(p as u32).wrapping_neg() | t; // if p { inter &= t }
        t += 1;
    }
    let mut u = 0u32;
    let mut t = 0u32;
    while t < (1 << N) {
        let ok = admissible(g, t) & (t & !inter == 0);
        u |= (ok as u32).wrapping_neg() & t;
        t += 1;
    }
    u
}

#[derive(Clone, Copy, PartialEq, Eq, Debug)]
pub enum Sem {
    GR,
    CO,
    PR,
    ST,
    SST,
    STG,
    ID,
    /// admissible sets (base of PR), conflict-free sets (base of STG): used for bounds only
    ADM,
    CF,
}

pub const fn is_ext<const N: usize>(sem: Sem, g: &G<N>, s: u32) -> bool {
    match sem {
        Sem::GR => s == grounded(g),
        Sem::CO => complete(g, s),
        Sem::PR => preferred(g, s),
        Sem::ST => stable(g, s),
        Sem::SST => semi_stable(g, s),
        Sem::STG => stage(g, s),
        Sem::ID => s == ideal(g),
        Sem::ADM => admissible(g, s),
        Sem::CF => conflict_free(g, s),
    }
}

pub const fn count_ext<const N: usize>(sem: Sem, g: &G<N>) -> u32 {
    let mut n = 0;
    let mut t = 0u32;
    while t < (1 << N) {
        n += is_ext(sem, g, t) as u32;
        t += 1;
    }
    n
}

/// some extension contains one of the arguments of `q` (bit-set)
pub const fn credulous<const N: usize>(sem: Sem, g: &G<N>, q: u32) -> bool {
    let mut r = false;
    let mut t = 0u32;
    while t < (1 << N) {
        r = r | (is_ext(sem, g, t) & (t & q != 0));
        t += 1;
    }
    r
}

/// every extension contains one of the arguments of `q` (bit-set)
pub const fn skeptical<const N: usize>(sem: Sem, g: &G<N>, q: u32) -> bool {
    let mut r = true;
    let mut t = 0u32;
    while t < (1 << N) {
        r = r & (!is_ext(sem, g, t) | (t & q != 0));
        t += 1;
    }
    r
}
