//! C12 harnesses: symbolic operation sequences on the real `AAFramework<usize>` against the set model.
use crate::store::*;

macro_rules! store_harness {
    ($name:ident, $k:literal, $unwind:literal) => {
        store_harness!($name, $k, $unwind, []);
    };
    ($name:ident, $k:literal, $unwind:literal, [$(($pk:literal, $px:literal, $py:literal)),*]) => {
        #[cfg_attr(kani, kani::proof)]
        #[cfg_attr(kani, kani::stub(alloc::fmt::format, crate::util::fmt_stub))]
        #[cfg_attr(kani, kani::stub(std::backtrace::Backtrace::capture, crate::util::bt_stub))]
        #[cfg_attr(kani, kani::stub(<anyhow::Error as std::ops::Drop>::drop, crate::util::noop_err_drop))]
        #[cfg_attr(kani, kani::unwind($unwind))]
        pub fn $name() {
            history_from::<$k>(&[$(($pk, $px, $py)),*]);
        }
    };
}

store_harness!(c12_q_history_k1, 1, 5);
// ONE-STEP (generated)
// one operation of a concrete kind with symbolic operands from a concrete reachable pre-state; `cnt` compares sizes,
// identifiers and lookups, `it` the three attack iterators
macro_rules! step_harness {
    ($name:ident, $unwind:literal, $kind:literal, $cnt:literal, $it:literal, [$(($pk:literal, $px:literal, $py:literal)),*]) => {
        #[cfg_attr(kani, kani::proof)]
        #[cfg_attr(kani, kani::stub(alloc::fmt::format, crate::util::fmt_stub))]
        #[cfg_attr(kani, kani::stub(std::backtrace::Backtrace::capture, crate::util::bt_stub))]
        #[cfg_attr(kani, kani::stub(<anyhow::Error as std::ops::Drop>::drop, crate::util::noop_err_drop))]
        #[cfg_attr(kani, kani::unwind($unwind))]
        pub fn $name() {
            one_step(&[$(($pk, $px, $py)),*], $kind, $cnt, $it);
        }
    };
}
step_harness!(c12_q_empty_add_cnt, 6, 0, true, false, []);
step_harness!(c12_t_empty_add_it, 6, 0, false, true, []);
step_harness!(c12_t_empty_rmarg_cnt, 6, 1, true, false, []);
step_harness!(c12_t_empty_rmarg_it, 6, 1, false, true, []);
step_harness!(c12_t_empty_att_cnt, 6, 2, true, false, []);
step_harness!(c12_t_empty_rmatt_cnt, 6, 3, true, false, []);
step_harness!(c12_t_empty_rmatt_it, 6, 3, false, true, []);
step_harness!(c12_t_a_add_cnt, 6, 0, true, false, [(0, 0, 0)]);
step_harness!(c12_t_a_add_it, 6, 0, false, true, [(0, 0, 0)]);
step_harness!(c12_q_a_rmarg_cnt, 6, 1, true, false, [(0, 0, 0)]);
step_harness!(c12_t_a_rmarg_it, 6, 1, false, true, [(0, 0, 0)]);
step_harness!(c12_t_a_att_cnt, 6, 2, true, false, [(0, 0, 0)]);
step_harness!(c12_t_a_rmatt_cnt, 6, 3, true, false, [(0, 0, 0)]);
step_harness!(c12_t_a_rmatt_it, 6, 3, false, true, [(0, 0, 0)]);
step_harness!(c12_t_ab_add_cnt, 7, 0, true, false, [(0, 0, 0), (0, 1, 0)]);
step_harness!(c12_t_ab_add_it, 7, 0, false, true, [(0, 0, 0), (0, 1, 0)]);
step_harness!(c12_t_ab_rmarg_cnt, 7, 1, true, false, [(0, 0, 0), (0, 1, 0)]);
step_harness!(c12_t_ab_rmarg_it, 7, 1, false, true, [(0, 0, 0), (0, 1, 0)]);
step_harness!(c12_q_ab_att_cnt, 7, 2, true, false, [(0, 0, 0), (0, 1, 0)]);
step_harness!(c12_t_ab_rmatt_cnt, 7, 3, true, false, [(0, 0, 0), (0, 1, 0)]);
step_harness!(c12_t_ab_rmatt_it, 7, 3, false, true, [(0, 0, 0), (0, 1, 0)]);
step_harness!(c12_q_a2b_add_cnt, 7, 0, true, false, [(0, 0, 0), (0, 1, 0), (2, 0, 1)]);
step_harness!(c12_t_a2b_add_it, 7, 0, false, true, [(0, 0, 0), (0, 1, 0), (2, 0, 1)]);
step_harness!(c12_q_a2b_rmarg_cnt, 7, 1, true, false, [(0, 0, 0), (0, 1, 0), (2, 0, 1)]);
step_harness!(c12_t_a2b_rmarg_it, 7, 1, false, true, [(0, 0, 0), (0, 1, 0), (2, 0, 1)]);
step_harness!(c12_q_a2b_att_cnt, 7, 2, true, false, [(0, 0, 0), (0, 1, 0), (2, 0, 1)]);
step_harness!(c12_q_a2b_rmatt_cnt, 7, 3, true, false, [(0, 0, 0), (0, 1, 0), (2, 0, 1)]);
step_harness!(c12_t_a2b_rmatt_it, 7, 3, false, true, [(0, 0, 0), (0, 1, 0), (2, 0, 1)]);
step_harness!(c12_t_full_add_cnt, 8, 0, true, false, [(0, 0, 0), (0, 1, 0), (2, 0, 1), (2, 1, 0), (2, 0, 0)]);
step_harness!(c12_t_full_add_it, 8, 0, false, true, [(0, 0, 0), (0, 1, 0), (2, 0, 1), (2, 1, 0), (2, 0, 0)]);
step_harness!(c12_q_full_rmarg_cnt, 8, 1, true, false, [(0, 0, 0), (0, 1, 0), (2, 0, 1), (2, 1, 0), (2, 0, 0)]);
step_harness!(c12_x_full_rmarg_it, 8, 1, false, true, [(0, 0, 0), (0, 1, 0), (2, 0, 1), (2, 1, 0), (2, 0, 0)]);
step_harness!(c12_t_full_att_cnt, 8, 2, true, false, [(0, 0, 0), (0, 1, 0), (2, 0, 1), (2, 1, 0), (2, 0, 0)]);
step_harness!(c12_q_full_rmatt_cnt, 8, 3, true, false, [(0, 0, 0), (0, 1, 0), (2, 0, 1), (2, 1, 0), (2, 0, 0)]);
step_harness!(c12_z_full_rmatt_it, 8, 3, false, true, [(0, 0, 0), (0, 1, 0), (2, 0, 1), (2, 1, 0), (2, 0, 0)]);
step_harness!(c12_t_tomb_attacker_add_cnt, 8, 0, true, false, [(0, 0, 0), (0, 1, 0), (2, 0, 1), (1, 0, 0)]);
step_harness!(c12_t_tomb_attacker_add_it, 8, 0, false, true, [(0, 0, 0), (0, 1, 0), (2, 0, 1), (1, 0, 0)]);
step_harness!(c12_q_tomb_attacker_rmarg_cnt, 8, 1, true, false, [(0, 0, 0), (0, 1, 0), (2, 0, 1), (1, 0, 0)]);
step_harness!(c12_z_tomb_attacker_rmarg_it, 8, 1, false, true, [(0, 0, 0), (0, 1, 0), (2, 0, 1), (1, 0, 0)]);
step_harness!(c12_q_tomb_attacker_att_cnt, 8, 2, true, false, [(0, 0, 0), (0, 1, 0), (2, 0, 1), (1, 0, 0)]);
step_harness!(c12_t_tomb_attacker_rmatt_cnt, 8, 3, true, false, [(0, 0, 0), (0, 1, 0), (2, 0, 1), (1, 0, 0)]);
step_harness!(c12_x_tomb_attacker_rmatt_it, 8, 3, false, true, [(0, 0, 0), (0, 1, 0), (2, 0, 1), (1, 0, 0)]);
step_harness!(c12_q_tomb_target_add_cnt, 8, 0, true, false, [(0, 0, 0), (0, 1, 0), (2, 0, 1), (1, 1, 0)]);
step_harness!(c12_t_tomb_target_add_it, 8, 0, false, true, [(0, 0, 0), (0, 1, 0), (2, 0, 1), (1, 1, 0)]);
step_harness!(c12_q_tomb_target_rmarg_cnt, 8, 1, true, false, [(0, 0, 0), (0, 1, 0), (2, 0, 1), (1, 1, 0)]);
step_harness!(c12_t_tomb_target_rmarg_it, 8, 1, false, true, [(0, 0, 0), (0, 1, 0), (2, 0, 1), (1, 1, 0)]);
step_harness!(c12_t_tomb_target_att_cnt, 8, 2, true, false, [(0, 0, 0), (0, 1, 0), (2, 0, 1), (1, 1, 0)]);
step_harness!(c12_t_tomb_target_rmatt_cnt, 8, 3, true, false, [(0, 0, 0), (0, 1, 0), (2, 0, 1), (1, 1, 0)]);
step_harness!(c12_t_tomb_target_rmatt_it, 8, 3, false, true, [(0, 0, 0), (0, 1, 0), (2, 0, 1), (1, 1, 0)]);
step_harness!(c12_t_readded_add_cnt, 9, 0, true, false, [(0, 0, 0), (0, 1, 0), (2, 0, 1), (1, 1, 0), (0, 1, 0), (2, 1, 1)]);
step_harness!(c12_t_readded_add_it, 9, 0, false, true, [(0, 0, 0), (0, 1, 0), (2, 0, 1), (1, 1, 0), (0, 1, 0), (2, 1, 1)]);
step_harness!(c12_t_readded_rmarg_cnt, 9, 1, true, false, [(0, 0, 0), (0, 1, 0), (2, 0, 1), (1, 1, 0), (0, 1, 0), (2, 1, 1)]);
step_harness!(c12_x_readded_rmarg_it, 9, 1, false, true, [(0, 0, 0), (0, 1, 0), (2, 0, 1), (1, 1, 0), (0, 1, 0), (2, 1, 1)]);
step_harness!(c12_t_readded_att_cnt, 9, 2, true, false, [(0, 0, 0), (0, 1, 0), (2, 0, 1), (1, 1, 0), (0, 1, 0), (2, 1, 1)]);
step_harness!(c12_q_readded_rmatt_cnt, 9, 3, true, false, [(0, 0, 0), (0, 1, 0), (2, 0, 1), (1, 1, 0), (0, 1, 0), (2, 1, 1)]);
step_harness!(c12_z_readded_rmatt_it, 9, 3, false, true, [(0, 0, 0), (0, 1, 0), (2, 0, 1), (1, 1, 0), (0, 1, 0), (2, 1, 1)]);
step_harness!(c12_t_detached_add_cnt, 8, 0, true, false, [(0, 0, 0), (0, 1, 0), (2, 0, 1), (2, 1, 0), (3, 0, 1)]);
step_harness!(c12_t_detached_add_it, 8, 0, false, true, [(0, 0, 0), (0, 1, 0), (2, 0, 1), (2, 1, 0), (3, 0, 1)]);
step_harness!(c12_q_detached_rmarg_cnt, 8, 1, true, false, [(0, 0, 0), (0, 1, 0), (2, 0, 1), (2, 1, 0), (3, 0, 1)]);
step_harness!(c12_z_detached_rmarg_it, 8, 1, false, true, [(0, 0, 0), (0, 1, 0), (2, 0, 1), (2, 1, 0), (3, 0, 1)]);
step_harness!(c12_t_detached_att_cnt, 8, 2, true, false, [(0, 0, 0), (0, 1, 0), (2, 0, 1), (2, 1, 0), (3, 0, 1)]);
step_harness!(c12_t_detached_rmatt_cnt, 8, 3, true, false, [(0, 0, 0), (0, 1, 0), (2, 0, 1), (2, 1, 0), (3, 0, 1)]);
step_harness!(c12_z_detached_rmatt_it, 8, 3, false, true, [(0, 0, 0), (0, 1, 0), (2, 0, 1), (2, 1, 0), (3, 0, 1)]);
step_harness!(c12_q_emptied_add_cnt, 7, 0, true, false, [(0, 0, 0), (1, 0, 0)]);
step_harness!(c12_t_emptied_add_it, 7, 0, false, true, [(0, 0, 0), (1, 0, 0)]);
step_harness!(c12_t_emptied_rmarg_cnt, 7, 1, true, false, [(0, 0, 0), (1, 0, 0)]);
step_harness!(c12_t_emptied_rmarg_it, 7, 1, false, true, [(0, 0, 0), (1, 0, 0)]);
step_harness!(c12_t_emptied_att_cnt, 7, 2, true, false, [(0, 0, 0), (1, 0, 0)]);
step_harness!(c12_t_emptied_rmatt_cnt, 7, 3, true, false, [(0, 0, 0), (1, 0, 0)]);
step_harness!(c12_t_emptied_rmatt_it, 7, 3, false, true, [(0, 0, 0), (1, 0, 0)]);
