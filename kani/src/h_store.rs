//! C12 harnesses: symbolic operation sequences on the real `AAFramework<usize>` against the set model.
use crate::store::*;

macro_rules! store_harness {
    ($name:ident, $k:literal, $unwind:literal) => {
        #[cfg_attr(kani, kani::proof)]
        #[cfg_attr(kani, kani::stub(alloc::fmt::format, crate::util::fmt_stub))]
        #[cfg_attr(kani, kani::stub(std::backtrace::Backtrace::capture, crate::util::bt_stub))]
        #[cfg_attr(kani, kani::stub(<anyhow::Error as std::ops::Drop>::drop, crate::util::noop_err_drop))]
        #[cfg_attr(kani, kani::unwind($unwind))]
        pub fn $name() {
            history::<$k>();
        }
    };
}

store_harness!(c12_q_history_k1, 1, 5);
store_harness!(c12_q_history_k2, 2, 6);
store_harness!(c12_t_history_k3, 3, 7);
