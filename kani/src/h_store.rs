//! C12 harnesses: symbolic operation sequences on the real `AAFramework<usize>` against the set model.
use crate::store::*;

macro_rules! store_harness {
    ($name:ident, $k:literal, $unwind:literal) => {
        store_harness!($name, $k, $unwind, []);
    };
    ($name:ident, $k:literal, $unwind:literal, [$(($pk:literal, $px:literal, $py:literal)),*]) => {
        #[cfg_attr(kani, kani::proof)]
        #[cfg_attr(kani, kani::stub(alloc::fmt::format, crate::util::fmt_stub))]
        #[cfg_attr(kani, kani::stub(std::backtrace::Backtrace::capture, crate::util::bt_stub))]
        #[cfg_attr(kani, kani::stub(<anyhow::Error as std::ops::Drop>::drop, crate::util::noop_err_drop))]
        #[cfg_attr(kani, kani::unwind($unwind))]
        pub fn $name() {
            history_from::<$k>(&[$(($pk, $px, $py)),*]);
        }
    };
}

store_harness!(c12_q_history_k1, 1, 5);
store_harness!(c12_q_history_k2, 2, 6);
store_harness!(c12_t_history_k3, 3, 7);
// from the populated store {a, b, a->b}: one and two arbitrary operations
store_harness!(c12_q_from_ab_k1, 1, 6, [(0, 0, 0), (0, 1, 0), (2, 0, 1)]);
store_harness!(c12_q_from_ab_k2, 2, 7, [(0, 0, 0), (0, 1, 0), (2, 0, 1)]);
// from {a, b, a->b, b->a, a->a}
store_harness!(c12_t_from_full_k2, 2, 8, [(0, 0, 0), (0, 1, 0), (2, 0, 1), (2, 1, 0), (2, 0, 0)]);
// after a removal: {b} with a tombstone for a, then two operations
store_harness!(c12_t_from_tomb_k2, 2, 7, [(0, 0, 0), (0, 1, 0), (2, 0, 1), (1, 0, 0)]);
