//! C06 harnesses: repeated / reordered queries on one solver object, certificate flag, encodings.
use crate::oracle::Shared;
use crate::spec::Sem;
use crate::statics::*;
use crate::util::*;
use std::rc::Rc;

macro_rules! indep_harness {
    ($name:ident, n=$n:literal, words=$words:literal, unwind=$unwind:literal, $sem:expr, $enc:expr, $pres:expr, code=$code:literal,
     script=[$(($k:expr, $a:literal, $c:literal)),*]) => {
        #[cfg_attr(kani, kani::proof)]
        #[cfg_attr(kani, kani::stub(alloc::fmt::format, crate::util::fmt_stub))]
        #[cfg_attr(kani, kani::stub(std::backtrace::Backtrace::capture, crate::util::bt_stub))]
        #[cfg_attr(kani, kani::stub(<anyhow::Error as std::ops::Drop>::drop, crate::util::noop_err_drop))]
        #[cfg_attr(kani, kani::unwind($unwind))]
        pub fn $name() {
            let sp = const { spec_of::<$n>($sem, $code) };
            let g = graph_from_code::<$n>($code);
            let af = build::<$n>(&g, $pres);
            let sh = Rc::new(Shared::default());
            repeated_queries::<$n, $words>(&af, &sp, $pres, $sem, $enc, &[$(($k, $a, $c)),*], &sh);
            std::mem::forget(af);
        }
    };
}

macro_rules! encodings_harness {
    ($name:ident, n=$n:literal, words=$w:literal, unwind=$unwind:literal, code=$code:literal, arg=$a:literal, cert=$c:literal) => {
        #[cfg_attr(kani, kani::proof)]
        #[cfg_attr(kani, kani::stub(alloc::fmt::format, crate::util::fmt_stub))]
        #[cfg_attr(kani, kani::stub(std::backtrace::Backtrace::capture, crate::util::bt_stub))]
        #[cfg_attr(kani, kani::stub(<anyhow::Error as std::ops::Drop>::drop, crate::util::noop_err_drop))]
        #[cfg_attr(kani, kani::unwind($unwind))]
        pub fn $name() {
            let sp = const { spec_of::<$n>(Sem::CO, $code) };
            let g = graph_from_code::<$n>($code);
            let af = build::<$n>(&g, Pres::Plain);
            let sh = Rc::new(Shared::default());
            same_status_for_every_encoding::<$n, $w>(&af, &sp, $a, $c, &sh);
            std::mem::forget(af);
        }
    };
}

// the same query with and without certificate, then the other argument, on ONE stable solver object
indep_harness!(c06_q_st_dc_cert_nocert_g6, n=2, words=1, unwind=6, Sem::ST, Enc::Default, Pres::Plain, code=6, script=[(Kind::DC, 0, true), (Kind::DC, 0, false)]);
indep_harness!(c06_q_st_dc_then_ds_g2, n=2, words=1, unwind=6, Sem::ST, Enc::Default, Pres::Plain, code=2, script=[(Kind::DC, 1, false), (Kind::DS, 0, true)]);
indep_harness!(c06_x_co_dc_ab_then_a_g14, n=2, words=1, unwind=7, Sem::CO, Enc::AuxCo, Pres::Plain, code=14, script=[(Kind::DC, 0, true), (Kind::DC, 1, false)]);
indep_harness!(c06_q_gr_repeat_g2, n=2, words=1, unwind=6, Sem::GR, Enc::Default, Pres::Plain, code=2, script=[(Kind::DS, 1, true), (Kind::DC, 1, false), (Kind::DS, 1, false)]);
encodings_harness!(c06_q_encodings_g6_a, n=2, words=1, unwind=7, code=6, arg=0, cert=false);
encodings_harness!(c06_q_encodings_g14_b, n=2, words=1, unwind=7, code=14, arg=1, cert=true);
indep_harness!(c06_t_st_ds_cert_nocert_g6, n=2, words=1, unwind=6, Sem::ST, Enc::Default, Pres::Plain, code=6, script=[(Kind::DS, 1, false), (Kind::DS, 1, true)]);
indep_harness!(c06_t_st_order_g10, n=2, words=1, unwind=6, Sem::ST, Enc::Default, Pres::Dup, code=10, script=[(Kind::DS, 0, true), (Kind::DC, 1, true)]);
indep_harness!(c06_t_co_repeat_g6_exp, n=2, words=1, unwind=6, Sem::CO, Enc::ExpCo, Pres::Plain, code=6, script=[(Kind::DC, 1, false), (Kind::DC, 1, true)]);
indep_harness!(c06_t_st_dc_cert_nocert_n3_g42, n=3, words=1, unwind=6, Sem::ST, Enc::Default, Pres::Plain, code=42, script=[(Kind::DC, 2, true), (Kind::DC, 2, false)]);
encodings_harness!(c06_t_encodings_g7_b, n=2, words=1, unwind=7, code=7, arg=1, cert=true);
encodings_harness!(c06_t_encodings_n3_g137_c, n=3, words=2, unwind=9, code=137, arg=2, cert=false);
