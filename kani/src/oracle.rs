//! The demonic SAT oracle: an implementation of crustabri's `SatSolver` that stands for every correct backend.
//!
//! * the set of satisfying assignments of the clauses added so far is kept as a truth table (`WORDS` x 64 bits, one bit
//!   per assignment of the first `6 + log2(WORDS)` variables); adding a clause is a handful of word operations that
//!   constant-fold when the clause is concrete, so SAT/UNSAT is *computed*, never assumed, and no loop depends on the
//!   number of clauses or assignments (all word loops are unrolled by a macro: no unwinding bound is spent on the oracle);
//! * on SAT the model returned is an arbitrary one (`nd::satisfying`): the verification solver picks it, so one harness
//!   covers every model sequence any correct backend could produce;
//! * variables that were only reserved (never in a clause or an assumption) may be reported unassigned (`None`), as the
//!   embedded CaDiCaL wrapper does, or with an arbitrary value, as an external solver would (`allow_none`);
//! * a fault plan makes the k-th call (counted over all instances of one query) return `Unknown`;
//! * bookkeeping shared with the harness: calls, per-instance maximum, header obligation of C16, overflow of the caps,
//!   candidate freshness for C18.

use crate::nd;
use crustabri::sat::{Literal, SatSolver, SolvingListener, SolvingResult};
use crustabri::verif_hooks as hooks;
use std::cell::Cell;
use std::rc::Rc;

/// Expands `$body` once per word index `0..WORDS` (`WORDS <= 64`), without a loop.
macro_rules! words {
    ($w:expr, $i:ident => $body:expr) => {
        words!(@go $w, $i, $body,
            0, 1, 2, 3, 4, 5, 6, 7, 8, 9, 10, 11, 12, 13, 14, 15, 16, 17, 18, 19, 20, 21, 22, 23, 24, 25, 26, 27, 28, 29, 30, 31,
            32, 33, 34, 35, 36, 37, 38, 39, 40, 41, 42, 43, 44, 45, 46, 47, 48, 49, 50, 51, 52, 53, 54, 55, 56, 57, 58, 59, 60, 61, 62, 63)
    };
    (@go $w:expr, $i:ident, $body:expr, $($k:literal),*) => {
        $( if $k < $w { let $i: usize = $k; $body; } )*
    };
}

const PAT: [u64; 6] = [
    0xAAAA_AAAA_AAAA_AAAA,
    0xCCCC_CCCC_CCCC_CCCC,
    0xF0F0_F0F0_F0F0_F0F0,
    0xFF00_FF00_FF00_FF00,
    0xFFFF_0000_FFFF_0000,
    0xFFFF_FFFF_0000_0000,
];

/// Word `i` of the truth table of "variable with 0-based index `v` is true".
#[inline(always)]
fn var_word(v: usize, i: usize) -> u64 {
    if v < 6 {
        PAT[v]
    } else if (i >> ((v - 6) & 31)) & 1 == 1 {
        !0u64
    } else {
        0u64
    }
}

#[inline(always)]
fn lit_word(l: isize, i: usize) -> u64 {
    let w = var_word(l.unsigned_abs().wrapping_sub(1), i);
    if l > 0 {
        w
    } else {
        !w
    }
}

/// Number of variables a table of `w` words can hold.
pub const fn cap_vars(w: usize) -> usize {
    let mut n = 6;
    let mut k = 1;
    while k < w {
        k <<= 1;
        n += 1;
    }
    n
}

/// native only: number of satisfiable answers given by all oracles of the process (used to select harnesses in which
/// the backend never returns a model)
#[cfg(not(kani))]
pub static SAT_ANSWERS: std::sync::atomic::AtomicU32 = std::sync::atomic::AtomicU32::new(0);

#[derive(Default)]
pub struct Shared {
    /// number of solve calls over all instances
    pub calls: Cell<u32>,
    /// largest number of solve calls made on one instance
    pub max_calls_per_instance: Cell<u32>,
    /// number of instances created
    pub instances: Cell<u32>,
    /// 0 = never fail; k>0: the k-th call (global count) returns Unknown
    pub fail_at: Cell<u32>,
    /// the backend stays dead after the injected fault (every later call returns Unknown as well), as a killed
    /// solver process does; false = only the `fail_at`-th call fails
    pub sticky_fault: Cell<bool>,
    /// a fault was injected
    pub faulted: Cell<bool>,
    /// C16a: some call had an assumption on a variable above n_vars() (the DIMACS header would not cover it)
    pub header_violation: Cell<bool>,
    /// a cap of the oracle (variables) was exceeded: the run is inconclusive
    pub overflow: Cell<bool>,
    /// whether reserved-but-unused variables may be reported as None
    pub allow_none: Cell<bool>,
    /// number of Satisfiable answers
    pub sat_answers: Cell<u32>,
    /// C18: number of leading variables whose projection identifies a candidate (0 = not tracked)
    pub proj_mask: Cell<u64>,
    /// C18: some instance returned two models with the same projection
    pub repeated_candidate: Cell<bool>,
    /// resolve the model choice by forking on each satisfying assignment (for CBMC's path-wise symbolic execution)
    /// instead of one constrained symbolic value (for merged bounded model checking)
    pub fork_models: Cell<bool>,
}

pub struct Oracle<const WORDS: usize> {
    sat: [u64; WORDS],
    /// n_vars as BufferedSatSolver/CaDiCaL compute it: max variable of the clauses, raised by reserve
    nv: usize,
    /// largest variable occurring in a clause or an assumption so far
    used: usize,
    calls: u32,
    /// C18: projections (on `proj_mask`) returned so far, as a bit set over projection values (< 64)
    seen: u64,
    shared: Rc<Shared>,
}

impl<const WORDS: usize> Oracle<WORDS> {
    pub fn new(shared: Rc<Shared>) -> Self {
        shared.instances.set(shared.instances.get() + 1);
        Oracle { sat: [!0u64; WORDS], nv: 0, used: 0, calls: 0, seen: 0, shared }
    }

    #[inline(always)]
    fn holds(t: &[u64; WORDS], b: u32) -> bool {
        (t[((b >> 6) as usize) % WORDS] >> (b & 63)) & 1 == 1
    }
}

pub fn factory<const WORDS: usize>(shared: &Rc<Shared>) -> Box<dyn Fn() -> Box<dyn SatSolver>> {
    let sh = shared.clone();
    Box::new(move || Box::new(Oracle::<WORDS>::new(sh.clone())))
}

impl<const WORDS: usize> SatSolver for Oracle<WORDS> {
    fn add_clause(&mut self, cl: Vec<Literal>) {
        let mut t = [0u64; WORDS];
        for l in cl.iter() {
            let i = isize::from(*l);
            let v = i.unsigned_abs();
            if v > cap_vars(WORDS) {
                self.shared.overflow.set(true);
                return;
            }
            if v > self.nv {
                self.nv = v;
            }
            if v > self.used {
                self.used = v;
            }
            words!(WORDS, w => t[w] |= lit_word(i, w));
        }
        words!(WORDS, w => self.sat[w] &= t[w]);
    }

    fn solve(&mut self) -> SolvingResult {
        self.solve_under_assumptions(&[])
    }

    fn solve_under_assumptions(&mut self, assumptions: &[Literal]) -> SolvingResult {
        let sh = self.shared.clone();
        sh.calls.set(sh.calls.get() + 1);
        self.calls += 1;
        if self.calls > sh.max_calls_per_instance.get() {
            sh.max_calls_per_instance.set(self.calls);
        }
        let mut t = self.sat;
        for l in assumptions.iter() {
            let i = isize::from(*l);
            let v = i.unsigned_abs();
            if v > cap_vars(WORDS) {
                sh.overflow.set(true);
                return SolvingResult::Unknown;
            }
            if v > self.nv {
                // the DIMACS header written for an external solver would not cover this variable (C16a);
                // the embedded solver declares it on the fly, which is what we model
                sh.header_violation.set(true);
                self.nv = v;
            }
            if v > self.used {
                self.used = v;
            }
            words!(WORDS, w => t[w] &= lit_word(i, w));
        }
        if (sh.fail_at.get() != 0)
            & ((sh.fail_at.get() == sh.calls.get()) | (sh.sticky_fault.get() & (sh.fail_at.get() < sh.calls.get())))
        {
            sh.faulted.set(true);
            return SolvingResult::Unknown;
        }
        let mut any = 0u64;
        words!(WORDS, w => any |= t[w]);
        if any == 0 {
            return SolvingResult::Unsatisfiable;
        }
        sh.sat_answers.set(sh.sat_answers.get() + 1);
        #[cfg(not(kani))]
        SAT_ANSWERS.fetch_add(1, std::sync::atomic::Ordering::Relaxed);
        // the table is a cylinder over the variables above `nv`: a satisfying point below 2^nv exists
        let chosen = if sh.fork_models.get() {
            // path mode: one fork per satisfying assignment, the rest of the path is concrete
            let mut c = 0u32;
            let mut found = false;
            let mut b = 0u32;
            while b < (1u32 << self.nv) {
                if !found && Self::holds(&t, b) {
                    c = b; // the last satisfying assignment is taken if none was picked before
                    if nd::bool_() {
                        found = true;
                    }
                }
                b += 1;
            }
            c
        } else {
            nd::satisfying(1u32 << self.nv, |b| Self::holds(&t, b))
        };
        let pm = sh.proj_mask.get();
        if pm != 0 {
            let proj = pext(chosen as u64, pm);
            if (self.seen >> (proj & 63)) & 1 == 1 {
                sh.repeated_candidate.set(true);
            }
            self.seen |= 1u64 << (proj & 63);
        }
        let mut v = Vec::with_capacity(self.nv);
        let mut i = 0;
        while i < self.nv {
            let val = Some((chosen >> i) & 1 == 1);
            if (i >= self.used) && sh.allow_none.get() {
                v.push(if nd::bool_() { None } else { val });
            } else {
                v.push(val);
            }
            i += 1;
        }
        SolvingResult::Satisfiable(hooks::new_assignment(v))
    }

    fn n_vars(&self) -> usize {
        self.nv
    }

    fn add_listener(&mut self, _l: Box<dyn SolvingListener>) {}

    fn reserve(&mut self, n: usize) {
        if n > cap_vars(WORDS) {
            self.shared.overflow.set(true);
            return;
        }
        if n > self.nv {
            self.nv = n;
        }
    }
}

/// Extracts the bits of `x` selected by `mask` into the low bits (software PEXT over 12 bits, loop-free).
#[inline(always)]
pub fn pext(x: u64, mask: u64) -> u64 {
    let mut r = 0u64;
    let mut k = 0u32;
    macro_rules! step {
        ($($b:literal),*) => { $( if (mask >> $b) & 1 == 1 { r |= ((x >> $b) & 1) << k; k += 1; } )* };
    }
    step!(0, 1, 2, 3, 4, 5, 6, 7, 8, 9, 10, 11);
    r
}
