//! C16 (text layer, instance side): the real `BufferedSatSolver` with a capturing solving function.
//! `n_vars()` bookkeeping for symbolic clauses, and (probe) the DIMACS text handed to the solver.
use crate::nd;
use crate::{reached, require};
use crustabri::sat::{Literal, SatSolver, SolvingResult};
use crustabri::verif_hooks::BufferedSatSolver;
use std::cell::RefCell;
use std::io::Read;
use std::rc::Rc;

fn lit() -> isize {
    // a literal in +-1..+-4
    let v = 1 + nd::below(4) as isize;
    if nd::bool_() {
        v
    } else {
        -v
    }
}

/// n_vars() = highest variable of the clauses added so far, raised by reserve: for two symbolic clauses and a reservation
fn nvars() {
    let mut s = BufferedSatSolver::new(Box::new(|_r| Box::new(std::io::empty())));
    let (a, b, c) = (lit(), lit(), lit());
    s.add_clause(vec![Literal::from(a), Literal::from(b)]);
    let m1 = a.unsigned_abs().max(b.unsigned_abs());
    require!(s.n_vars() == m1, "C16: the header's variable count covers every variable of the clauses (after the first clause)");
    s.add_clause(vec![Literal::from(c)]);
    let m2 = m1.max(c.unsigned_abs());
    require!(s.n_vars() == m2, "C16: the header's variable count covers every variable of the clauses (after the second clause)");
    let k = nd::below(7) as usize;
    s.reserve(k);
    require!(s.n_vars() == m2.max(k), "C16: reserve raises the variable count and never lowers it");
    reached!(m2 > k, "a clause variable above the reservation");
    std::mem::forget(s);
}

#[cfg_attr(kani, kani::proof)]
#[cfg_attr(kani, kani::stub(alloc::fmt::format, crate::util::fmt_stub))]
#[cfg_attr(kani, kani::unwind(5))]
pub fn c16_q_buffered_nvars() {
    nvars();
}

/// the DIMACS text written for one symbolic binary clause and one symbolic assumption (formatting real, reply empty)
fn instance_text() {
    let captured: Rc<RefCell<Vec<u8>>> = Rc::new(RefCell::new(Vec::new()));
    let cap = captured.clone();
    let mut s = BufferedSatSolver::new(Box::new(move |mut r| {
        let mut buf = [0u8; 64];
        let mut total = 0;
        loop {
            let n = r.read(&mut buf[total..]).unwrap();
            if n == 0 {
                break;
            }
            total += n;
        }
        cap.borrow_mut().extend_from_slice(&buf[..total]);
        Box::new(std::io::empty())
    }));
    let (a, b, c) = (lit(), lit(), lit());
    s.add_clause(vec![Literal::from(a), Literal::from(b)]);
    let res = s.solve_under_assumptions(&[Literal::from(c)]);
    require!(matches!(res, SolvingResult::Unknown), "C16: an empty reply is reported as undecided");
    let nv = a.unsigned_abs().max(b.unsigned_abs());
    // reference text
    let mut want: Vec<u8> = Vec::new();
    want.extend_from_slice(b"p cnf ");
    want.push(b'0' + nv as u8);
    want.extend_from_slice(b" 2\n");
    for l in [a, b] {
        if l < 0 {
            want.push(b'-');
        }
        want.push(b'0' + l.unsigned_abs() as u8);
        want.push(b' ');
    }
    want.extend_from_slice(b"0\n");
    if c < 0 {
        want.push(b'-');
    }
    want.push(b'0' + c.unsigned_abs() as u8);
    want.extend_from_slice(b" 0\n");
    let got = captured.borrow();
    let mut same = got.len() == want.len();
    let mut i = 0;
    while i < want.len() && i < got.len() {
        same = same & (got[i] == want[i]);
        i += 1;
    }
    require!(same, "C16: the DIMACS text is 'p cnf n_vars n_clauses+n_assumptions', the clauses, one unit clause per assumption");
    std::mem::forget(res);
}

#[cfg_attr(kani, kani::proof)]
#[cfg_attr(kani, kani::unwind(66))]
pub fn c16_p_instance_text() {
    instance_text();
}
