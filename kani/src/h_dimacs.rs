//! C16 (text layer, instance side): the real `BufferedSatSolver` with a capturing solving function.
//! `n_vars()` bookkeeping for symbolic clauses.  (A harness on the DIMACS text itself - real `format!`, a capturing
//! solving function - makes CBMC fail; the text layer is outside the claim, see DESIGN.md.)
use crate::nd;
use crate::{reached, require};
use crustabri::sat::{Literal, SatSolver};
use crustabri::verif_hooks::BufferedSatSolver;

fn lit() -> isize {
    // a literal in +-1..+-4
    let v = 1 + nd::below(4) as isize;
    if nd::bool_() {
        v
    } else {
        -v
    }
}

/// n_vars() = highest variable of the clauses added so far, raised by reserve: for two symbolic clauses and a reservation
fn nvars() {
    let mut s = BufferedSatSolver::new(Box::new(|_r| Box::new(std::io::empty())));
    let (a, b, c) = (lit(), lit(), lit());
    s.add_clause(vec![Literal::from(a), Literal::from(b)]);
    let m1 = a.unsigned_abs().max(b.unsigned_abs());
    require!(s.n_vars() == m1, "C16: the header's variable count covers every variable of the clauses (after the first clause)");
    s.add_clause(vec![Literal::from(c)]);
    let m2 = m1.max(c.unsigned_abs());
    require!(s.n_vars() == m2, "C16: the header's variable count covers every variable of the clauses (after the second clause)");
    let k = nd::below(7) as usize;
    s.reserve(k);
    require!(s.n_vars() == m2.max(k), "C16: reserve raises the variable count and never lowers it");
    reached!(m2 > k, "a clause variable above the reservation");
    std::mem::forget(s);
}

#[cfg_attr(kani, kani::proof)]
#[cfg_attr(kani, kani::stub(alloc::fmt::format, crate::util::fmt_stub))]
#[cfg_attr(kani, kani::stub(core::fmt::write, crate::util::fmt_write_stub))]
#[cfg_attr(kani, kani::unwind(5))]
pub fn c16_q_buffered_nvars() {
    nvars();
}

