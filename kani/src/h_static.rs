//! Kani proof harnesses for the static solvers. Each harness runs a list of concrete (framework, query) cases through
//! `statics::query` with the demonic oracle; the oracle's model choices (and the fault position, where used) are the
//! symbolic inputs.
use crate::nd;
use crate::oracle::Shared;
use crate::spec::Sem;
use crate::statics::*;
use crate::util::*;
use std::rc::Rc;

/// all singleton queries
pub const SINGLES: u8 = 0;
/// all ordered pairs (with repetition)
pub const PAIRS: u8 = 1;
/// no query argument (SE)
pub const NOQ: u8 = 2;

pub fn case<const N: usize, const CODE: u32, const WORDS: usize>(
    sp: &Spec,
    sem: Sem,
    enc: Enc,
    kind: Kind,
    pres: Pres,
    cert: bool,
    checks: Checks,
    qs: u8,
    max_fault: u32,
    fork: bool,
) {
    let g = graph_from_code::<N>(CODE);
    let af = build::<N>(&g, pres);
    let run = |q: &[usize]| {
        let sh = Rc::new(Shared::default());
        sh.fork_models.set(fork);
        if max_fault > 0 {
            sh.fail_at.set(1 + nd::below(max_fault));
        }
        let o = query::<N, WORDS>(&af, sp, pres, sem, enc, kind, q, cert, checks, &sh);
        std::mem::forget(o);
    };
    match qs {
        NOQ => run(&[]),
        SINGLES => {
            for a in 0..N {
                run(&[a]);
            }
        }
        _ => {
            for a in 0..N {
                for b in 0..N {
                    run(&[a, b]);
                }
            }
        }
    }
    std::mem::forget(af);
}

macro_rules! static_harness {
    ($name:ident, n=$n:literal, words=$words:literal, unwind=$unwind:literal, $sem:expr, $enc:expr, $kind:expr, $pres:expr,
     cert=$cert:expr, $checks:expr, qs=$qs:expr, fault=$fault:expr, fork=$fork:expr, codes=[$($code:literal),*]) => {
        #[kani::proof]
        #[kani::stub(alloc::fmt::format, crate::util::fmt_stub)]
        #[kani::stub(std::backtrace::Backtrace::capture, crate::util::bt_stub)]
        #[kani::stub(<anyhow::Error as std::ops::Drop>::drop, crate::util::noop_err_drop)]
        #[kani::unwind($unwind)]
        fn $name() {
            $(
                {
                    let sp = const { spec_of::<$n>($sem, $code) };
                    case::<$n, $code, $words>(&sp, $sem, $enc, $kind, $pres, $cert, $checks, $qs, $fault, $fork);
                }
            )*
        }
    };
}

// ---- experiments
static_harness!(e1_pr_se, n=2, words=1, unwind=7, Sem::PR, Enc::AuxAdm, Kind::SE, Pres::Plain, cert=false, ANSWER, qs=NOQ, fault=0, fork=false, codes=[6]);
static_harness!(e5_st_dc4, n=2, words=1, unwind=6, Sem::ST, Enc::Default, Kind::DC, Pres::Plain, cert=true, CERT, qs=SINGLES, fault=0, fork=false, codes=[0, 6, 7, 14]);
static_harness!(e6_co_dc4, n=2, words=1, unwind=7, Sem::CO, Enc::AuxCo, Kind::DC, Pres::Plain, cert=true, CERT, qs=SINGLES, fault=0, fork=false, codes=[0, 6, 7, 14]);
static_harness!(e7_st_dc_n3, n=3, words=1, unwind=6, Sem::ST, Enc::Default, Kind::DC, Pres::Plain, cert=true, CERT, qs=SINGLES, fault=0, fork=false, codes=[42]);
