//! Kani proof harnesses for the static solvers. Each harness runs a list of concrete (framework, query) cases through
//! `statics::query` with the demonic oracle; the oracle's model choices (and the fault position, where used) are the
//! symbolic inputs.
use crate::nd;
use crate::oracle::Shared;
use crate::spec::Sem;
use crate::statics::*;
use crate::util::*;
use std::rc::Rc;

/// all singleton queries
pub const SINGLES: u8 = 0;
/// all ordered pairs (with repetition)
pub const PAIRS: u8 = 1;
/// no query argument (SE)
pub const NOQ: u8 = 2;
/// one query: the argument lists [0], [1], [2], [0,1], [1,0], [0,0], [0,2]
pub const Q0: u8 = 10;
pub const Q1: u8 = 11;
pub const Q2: u8 = 12;
pub const Q01: u8 = 13;
pub const Q10: u8 = 14;
pub const Q00: u8 = 15;
pub const Q02: u8 = 16;

pub fn case<const N: usize, const CODE: u32, const WORDS: usize>(
    sp: &Spec,
    sem: Sem,
    enc: Enc,
    kind: Kind,
    pres: Pres,
    cert: bool,
    checks: Checks,
    qs: u8,
    max_fault: u32,
    fork: bool,
) {
    let g = graph_from_code::<N>(CODE);
    let af = build::<N>(&g, pres);
    let run = |q: &[usize]| {
        let sh = Rc::new(Shared::default());
        sh.fork_models.set(fork);
        if max_fault > 0 {
            sh.fail_at.set(1 + nd::below(max_fault));
        }
        let o = query::<N, WORDS>(&af, sp, pres, sem, enc, kind, q, cert, checks, &sh);
        std::mem::forget(o);
    };
    match qs {
        NOQ => run(&[]),
        Q0 => run(&[0]),
        Q1 => run(&[1]),
        Q2 => run(&[2]),
        Q01 => run(&[0, 1]),
        Q10 => run(&[1, 0]),
        Q00 => run(&[0, 0]),
        Q02 => run(&[0, 2]),
        SINGLES => {
            for a in 0..N {
                run(&[a]);
            }
        }
        _ => {
            for a in 0..N {
                for b in 0..N {
                    run(&[a, b]);
                }
            }
        }
    }
    std::mem::forget(af);
}

macro_rules! static_harness {
    ($name:ident, n=$n:literal, words=$words:literal, unwind=$unwind:literal, $sem:expr, $enc:expr, $kind:expr, $pres:expr,
     cert=$cert:expr, $checks:expr, qs=$qs:expr, fault=$fault:expr, fork=$fork:expr, codes=[$($code:literal),*]) => {
        #[cfg_attr(kani, kani::proof)]
        #[cfg_attr(kani, kani::stub(alloc::fmt::format, crate::util::fmt_stub))]
        #[cfg_attr(kani, kani::stub(std::backtrace::Backtrace::capture, crate::util::bt_stub))]
        #[cfg_attr(kani, kani::stub(<anyhow::Error as std::ops::Drop>::drop, crate::util::noop_err_drop))]
        #[cfg_attr(kani, kani::unwind($unwind))]
        pub fn $name() {
            $(
                {
                    let sp = const { spec_of::<$n>($sem, $code) };
                    case::<$n, $code, $words>(&sp, $sem, $enc, $kind, $pres, $cert, $checks, $qs, $fault, $fork);
                }
            )*
        }
    };
}

// Graph codes for N = 2 (bit i*2+j = attack i->j):  0: no attack (two components)   2: a->b   6: a<->b   8: b->b, a isolated
//   9: a->a, b->b   10: a->b, b->b   14: a<->b, b->b   7: a->a, a<->b
// N = 3 (bit i*3+j):  8: b->a, c isolated   42: a<->b, b->c   84: a->b->c->a (odd cycle)   10: a->b, b->a ... see evidence samples

// ---- C01: single-extension answers
static_harness!(c01_q_st_se_g6, n=2, words=1, unwind=6, Sem::ST, Enc::Default, Kind::SE, Pres::Plain, cert=false, ANSWER, qs=NOQ, fault=0, fork=false, codes=[6]);
static_harness!(c01_q_st_se_g8_none, n=2, words=1, unwind=6, Sem::ST, Enc::Default, Kind::SE, Pres::Plain, cert=false, ANSWER, qs=NOQ, fault=0, fork=false, codes=[8]);
static_harness!(c01_q_gr_se_g2_sparse, n=2, words=1, unwind=6, Sem::GR, Enc::Default, Kind::SE, Pres::SparseFirst, cert=false, ANSWER, qs=NOQ, fault=0, fork=false, codes=[2]);
static_harness!(c01_t_st_se_g14_dup, n=2, words=1, unwind=6, Sem::ST, Enc::Default, Kind::SE, Pres::Dup, cert=false, ANSWER, qs=NOQ, fault=0, fork=false, codes=[14]);
static_harness!(c01_t_co_se_g6_sparse, n=2, words=1, unwind=6, Sem::CO, Enc::Default, Kind::SE, Pres::SparseMid, cert=false, ANSWER, qs=NOQ, fault=0, fork=false, codes=[6]);
static_harness!(c01_t_st_se_n3_g42, n=3, words=1, unwind=6, Sem::ST, Enc::Default, Kind::SE, Pres::Plain, cert=false, ANSWER, qs=NOQ, fault=0, fork=false, codes=[42]);
static_harness!(c01_t_st_se_n3_g84, n=3, words=1, unwind=6, Sem::ST, Enc::Default, Kind::SE, Pres::Plain, cert=false, ANSWER, qs=NOQ, fault=0, fork=false, codes=[84]);

// ---- C02: credulous acceptance (no certificate)
static_harness!(c02_q_st_dc_g6_a, n=2, words=1, unwind=6, Sem::ST, Enc::Default, Kind::DC, Pres::Plain, cert=false, ANSWER, qs=Q0, fault=0, fork=false, codes=[6]);
static_harness!(c02_q_st_dc_g2_b, n=2, words=1, unwind=6, Sem::ST, Enc::Default, Kind::DC, Pres::Plain, cert=false, ANSWER, qs=Q1, fault=0, fork=false, codes=[2]);
static_harness!(c02_q_co_dc_g14_aux_a, n=2, words=1, unwind=7, Sem::CO, Enc::AuxCo, Kind::DC, Pres::Plain, cert=false, ANSWER, qs=Q0, fault=0, fork=false, codes=[14]);
static_harness!(c02_q_pr_dc_g2_exp_b, n=2, words=1, unwind=6, Sem::PR, Enc::ExpCo, Kind::DC, Pres::Plain, cert=false, ANSWER, qs=Q1, fault=0, fork=false, codes=[2]);
static_harness!(c02_t_st_dc_g9_none, n=2, words=1, unwind=6, Sem::ST, Enc::Default, Kind::DC, Pres::Plain, cert=false, ANSWER, qs=Q0, fault=0, fork=false, codes=[9]);
static_harness!(c02_t_co_dc_g6_hybrid, n=2, words=1, unwind=6, Sem::CO, Enc::Hybrid, Kind::DC, Pres::Plain, cert=false, ANSWER, qs=Q1, fault=0, fork=false, codes=[6]);
static_harness!(c02_t_gr_dc_g10_sparse, n=2, words=1, unwind=6, Sem::GR, Enc::Default, Kind::DC, Pres::SparseFirst, cert=false, ANSWER, qs=SINGLES, fault=0, fork=false, codes=[10]);
static_harness!(c02_t_st_dc_n3_g42_c, n=3, words=1, unwind=6, Sem::ST, Enc::Default, Kind::DC, Pres::Plain, cert=false, ANSWER, qs=Q2, fault=0, fork=false, codes=[42]);
static_harness!(c02_t_st_dc_g6_dup, n=2, words=1, unwind=6, Sem::ST, Enc::Default, Kind::DC, Pres::Dup, cert=false, ANSWER, qs=Q1, fault=0, fork=false, codes=[6]);

// ---- C03: skeptical acceptance (no certificate)
static_harness!(c03_q_st_ds_g6_a, n=2, words=1, unwind=6, Sem::ST, Enc::Default, Kind::DS, Pres::Plain, cert=false, ANSWER, qs=Q0, fault=0, fork=false, codes=[6]);
static_harness!(c03_q_st_ds_g2_a, n=2, words=1, unwind=6, Sem::ST, Enc::Default, Kind::DS, Pres::Plain, cert=false, ANSWER, qs=Q0, fault=0, fork=false, codes=[2]);
static_harness!(c03_q_st_ds_g10_none, n=2, words=1, unwind=6, Sem::ST, Enc::Default, Kind::DS, Pres::Plain, cert=false, ANSWER, qs=Q1, fault=0, fork=false, codes=[10]);
static_harness!(c03_q_co_ds_g2, n=2, words=1, unwind=6, Sem::CO, Enc::Default, Kind::DS, Pres::Plain, cert=false, ANSWER, qs=SINGLES, fault=0, fork=false, codes=[2]);
static_harness!(c03_t_st_ds_g14_sparse, n=2, words=1, unwind=6, Sem::ST, Enc::Default, Kind::DS, Pres::SparseMid, cert=false, ANSWER, qs=Q0, fault=0, fork=false, codes=[14]);
static_harness!(c03_t_gr_ds_g6_dup, n=2, words=1, unwind=6, Sem::GR, Enc::Default, Kind::DS, Pres::Dup, cert=false, ANSWER, qs=SINGLES, fault=0, fork=false, codes=[6]);
static_harness!(c03_t_st_ds_n3_g42_a, n=3, words=1, unwind=6, Sem::ST, Enc::Default, Kind::DS, Pres::Plain, cert=false, ANSWER, qs=Q0, fault=0, fork=false, codes=[42]);
static_harness!(c03_t_st_ds_g8_none, n=2, words=1, unwind=6, Sem::ST, Enc::Default, Kind::DS, Pres::Plain, cert=false, ANSWER, qs=Q0, fault=0, fork=false, codes=[8]);

// ---- C04: certificates
static_harness!(c04_q_st_dc_cert_g6_a, n=2, words=1, unwind=6, Sem::ST, Enc::Default, Kind::DC, Pres::Plain, cert=true, CERT, qs=Q0, fault=0, fork=false, codes=[6]);
static_harness!(c04_q_st_ds_cert_g6_b, n=2, words=1, unwind=6, Sem::ST, Enc::Default, Kind::DS, Pres::Plain, cert=true, CERT, qs=Q1, fault=0, fork=false, codes=[6]);
static_harness!(c04_q_co_dc_cert_g14_a, n=2, words=1, unwind=7, Sem::CO, Enc::AuxCo, Kind::DC, Pres::Plain, cert=true, CERT, qs=Q0, fault=0, fork=false, codes=[14]);
static_harness!(c04_q_gr_ds_cert_g2, n=2, words=1, unwind=6, Sem::GR, Enc::Default, Kind::DS, Pres::Plain, cert=true, CERT, qs=SINGLES, fault=0, fork=false, codes=[2]);
static_harness!(c04_t_st_dc_cert_g0_a, n=2, words=1, unwind=6, Sem::ST, Enc::Default, Kind::DC, Pres::Plain, cert=true, CERT, qs=Q0, fault=0, fork=false, codes=[0]);
static_harness!(c04_t_pr_dc_cert_g6_exp, n=2, words=1, unwind=6, Sem::PR, Enc::ExpCo, Kind::DC, Pres::Plain, cert=true, CERT, qs=Q1, fault=0, fork=false, codes=[6]);
static_harness!(c04_t_co_dc_cert_g2_sparse, n=2, words=1, unwind=7, Sem::CO, Enc::AuxCo, Kind::DC, Pres::SparseFirst, cert=true, CERT, qs=Q0, fault=0, fork=false, codes=[2]);
static_harness!(c04_t_st_dc_cert_n3_g8_c, n=3, words=1, unwind=6, Sem::ST, Enc::Default, Kind::DC, Pres::Plain, cert=true, CERT, qs=Q2, fault=0, fork=false, codes=[8]);
static_harness!(c04_t_st_ds_cert_g10_dup, n=2, words=1, unwind=6, Sem::ST, Enc::Default, Kind::DS, Pres::Dup, cert=true, CERT, qs=Q0, fault=0, fork=false, codes=[10]);

// ---- C07: lists of arguments are disjunctions, with and without certificate
static_harness!(c07_q_co_dc_ab_cert_g6, n=2, words=1, unwind=7, Sem::CO, Enc::AuxCo, Kind::DC, Pres::Plain, cert=true, CERT, qs=Q01, fault=0, fork=false, codes=[6]);
static_harness!(c07_q_st_dc_ba_g2, n=2, words=1, unwind=6, Sem::ST, Enc::Default, Kind::DC, Pres::Plain, cert=false, ANSWER, qs=Q10, fault=0, fork=false, codes=[2]);
static_harness!(c07_q_st_ds_ab_cert_g6, n=2, words=1, unwind=6, Sem::ST, Enc::Default, Kind::DS, Pres::Plain, cert=true, CERT, qs=Q01, fault=0, fork=false, codes=[6]);
static_harness!(c07_q_co_dc_ab_g6, n=2, words=1, unwind=7, Sem::CO, Enc::AuxCo, Kind::DC, Pres::Plain, cert=false, ANSWER, qs=Q01, fault=0, fork=false, codes=[6]);
static_harness!(c07_t_st_dc_ac_cert_n3_g8, n=3, words=1, unwind=6, Sem::ST, Enc::Default, Kind::DC, Pres::Plain, cert=true, CERT, qs=Q02, fault=0, fork=false, codes=[8]);
static_harness!(c07_t_co_dc_aa_g14_exp, n=2, words=1, unwind=6, Sem::CO, Enc::ExpCo, Kind::DC, Pres::Plain, cert=true, CERT, qs=Q00, fault=0, fork=false, codes=[14]);
static_harness!(c07_t_gr_pairs_g2, n=2, words=1, unwind=6, Sem::GR, Enc::Default, Kind::DS, Pres::Plain, cert=true, CERT, qs=PAIRS, fault=0, fork=false, codes=[2]);
static_harness!(c07_t_st_dc_ab_g0, n=2, words=1, unwind=6, Sem::ST, Enc::Default, Kind::DC, Pres::Plain, cert=true, CERT, qs=Q01, fault=0, fork=false, codes=[0]);

// ---- C16 (a): every assumption is covered by the DIMACS header's variable count
static_harness!(c16_q_st_dc_header_g2, n=2, words=1, unwind=6, Sem::ST, Enc::Default, Kind::DC, Pres::Plain, cert=false, HEADER, qs=Q0, fault=0, fork=false, codes=[2]);
static_harness!(c16_q_co_dc_header_g6, n=2, words=1, unwind=7, Sem::CO, Enc::AuxCo, Kind::DC, Pres::Plain, cert=true, HEADER, qs=Q1, fault=0, fork=false, codes=[6]);
static_harness!(c16_q_st_ds_header_g6, n=2, words=1, unwind=6, Sem::ST, Enc::Default, Kind::DS, Pres::Plain, cert=true, HEADER, qs=Q01, fault=0, fork=false, codes=[6]);
static_harness!(c16_t_co_dc_header_exp, n=2, words=1, unwind=6, Sem::PR, Enc::ExpCo, Kind::DC, Pres::Plain, cert=false, HEADER, qs=Q01, fault=0, fork=false, codes=[14]);
static_harness!(c16_t_st_dc_header_g0, n=2, words=1, unwind=6, Sem::ST, Enc::Default, Kind::DC, Pres::Plain, cert=true, HEADER, qs=Q01, fault=0, fork=false, codes=[0]);

// ---- C17: a failing backend never becomes an answer (fault position symbolic)
static_harness!(c17_q_st_dc_fault_g6, n=2, words=1, unwind=6, Sem::ST, Enc::Default, Kind::DC, Pres::Plain, cert=true, FAULT, qs=Q0, fault=2, fork=false, codes=[6]);
static_harness!(c17_q_co_dc_fault_g2, n=2, words=1, unwind=7, Sem::CO, Enc::AuxCo, Kind::DC, Pres::Plain, cert=false, FAULT, qs=Q1, fault=2, fork=false, codes=[2]);
static_harness!(c17_q_st_se_fault_g6, n=2, words=1, unwind=6, Sem::ST, Enc::Default, Kind::SE, Pres::Plain, cert=false, FAULT, qs=NOQ, fault=2, fork=false, codes=[6]);
static_harness!(c17_t_st_ds_fault_g0, n=2, words=1, unwind=6, Sem::ST, Enc::Default, Kind::DS, Pres::Plain, cert=true, FAULT, qs=Q0, fault=3, fork=false, codes=[0]);

// ---- C18: at most two SAT calls per component for CO and ST
static_harness!(c18_q_st_dc_calls_g6, n=2, words=1, unwind=6, Sem::ST, Enc::Default, Kind::DC, Pres::Plain, cert=true, CALLS, qs=Q01, fault=0, fork=false, codes=[6]);
static_harness!(c18_q_co_dc_calls_g6, n=2, words=1, unwind=7, Sem::CO, Enc::AuxCo, Kind::DC, Pres::Plain, cert=true, CALLS, qs=Q0, fault=0, fork=false, codes=[6]);
static_harness!(c18_q_st_ds_calls_g2, n=2, words=1, unwind=6, Sem::ST, Enc::Default, Kind::DS, Pres::Plain, cert=false, CALLS, qs=Q1, fault=0, fork=false, codes=[2]);
static_harness!(c18_t_st_dc_calls_g0, n=2, words=1, unwind=6, Sem::ST, Enc::Default, Kind::DC, Pres::Plain, cert=true, CALLS, qs=Q01, fault=0, fork=false, codes=[0]);
