//! Kani proof harnesses for the static solvers. Each harness runs a list of concrete (framework, query) cases through
//! `statics::query` with the demonic oracle; the oracle's model choices (and the fault position, where used) are the
//! symbolic inputs.
use crate::nd;
use crate::oracle::Shared;
use crate::spec::Sem;
use crate::statics::*;
use crate::util::*;
use std::rc::Rc;

pub fn case<const N: usize, const CODE: u32, const WORDS: usize>(
    sp: &Spec,
    sem: Sem,
    enc: Enc,
    kind: Kind,
    pres: Pres,
    cert: bool,
    checks: Checks,
    queries: &[&[usize]],
    max_fault: u32,
) {
    let g = graph_from_code::<N>(CODE);
    let af = build::<N>(&g, pres);
    for q in queries.iter() {
        let sh = Rc::new(Shared::default());
        if max_fault >= 100 {
            // 100 + k: the fault is permanent (the backend is dead from the chosen call on)
            sh.sticky_fault.set(true);
            // a single position stays a constant (a symbolic value constrained to one value is not propagated by CBMC)
            sh.fail_at.set(if max_fault == 101 { 1 } else { 1 + nd::below(max_fault - 100) });
        } else if max_fault > 0 {
            sh.fail_at.set(if max_fault == 1 { 1 } else { 1 + nd::below(max_fault) });
        }
        let o = query::<N, WORDS>(&af, sp, pres, sem, enc, kind, q, cert, checks, &sh);
        std::mem::forget(o);
    }
    std::mem::forget(af);
}

macro_rules! static_harness {
    ($name:ident, n=$n:literal, words=$words:literal, unwind=$unwind:literal, $sem:expr, $enc:expr, $kind:expr, $pres:expr,
     cert=$cert:expr, $checks:expr, qs=[$([$($q:literal),*]),*], fault=$fault:expr, codes=[$code:literal]) => {
        #[cfg_attr(kani, kani::proof)]
        #[cfg_attr(kani, kani::stub(alloc::fmt::format, crate::util::fmt_stub))]
        #[cfg_attr(kani, kani::stub(std::backtrace::Backtrace::capture, crate::util::bt_stub))]
        #[cfg_attr(kani, kani::stub(<anyhow::Error as std::ops::Drop>::drop, crate::util::noop_err_drop))]
        #[cfg_attr(kani, kani::unwind($unwind))]
        pub fn $name() {
            let sp = const { spec_of::<$n>($sem, $code) };
            case::<$n, $code, $words>(&sp, $sem, $enc, $kind, $pres, $cert, $checks, &[$(&[$($q),*][..]),*], $fault);
        }
    };
}

/// C17 harnesses: as `static_harness!`, with `SolvingResult::unwrap_model` replaced by a stub that ends the path on
/// `Unknown` (the documented panic = the abort the property asks for), so that the harness has no check that is expected
/// to fail and runs as one SAT query.  That the real `unwrap_model` panics on `Unknown` is `c17_q_pp_unwrap_unknown_aborts`.
macro_rules! static_fault_harness {
    ($name:ident, n=$n:literal, words=$words:literal, unwind=$unwind:literal, $sem:expr, $enc:expr, $kind:expr, $pres:expr,
     cert=$cert:expr, $checks:expr, qs=[$([$($q:literal),*]),*], fault=$fault:expr, codes=[$code:literal]) => {
        #[cfg_attr(kani, kani::proof)]
        #[cfg_attr(kani, kani::stub(alloc::fmt::format, crate::util::fmt_stub))]
        #[cfg_attr(kani, kani::stub(std::backtrace::Backtrace::capture, crate::util::bt_stub))]
        #[cfg_attr(kani, kani::stub(<anyhow::Error as std::ops::Drop>::drop, crate::util::noop_err_drop))]
        #[cfg_attr(kani, kani::stub(crustabri::sat::SolvingResult::unwrap_model, crate::util::unwrap_model_stub))]
        #[cfg_attr(kani, kani::unwind($unwind))]
        pub fn $name() {
            let sp = const { spec_of::<$n>($sem, $code) };
            case::<$n, $code, $words>(&sp, $sem, $enc, $kind, $pres, $cert, $checks, &[$(&[$($q),*][..]),*], $fault);
        }
    };
}


/// the real `unwrap_model`, not stubbed: `Unknown` never comes back as a value (per-property mode: the panic is expected)
#[cfg_attr(kani, kani::proof)]
#[cfg_attr(kani, kani::stub(alloc::fmt::format, crate::util::fmt_stub))]
pub fn c17_q_pp_unwrap_unknown_aborts() {
    let r = crustabri::sat::SolvingResult::Unknown.unwrap_model();
    std::mem::forget(r);
    crate::require!(false, "C17: SolvingResult::unwrap_model returned a value for Unknown");
}

// GENERATED-BELOW (lib/gen_harnesses.py)
static_harness!(c01_x_st_se_def_n2g0_x_pl, n=2, words=1, unwind=6, Sem::ST, Enc::Default, Kind::SE, Pres::Plain, cert=false, ANSWER, qs=[[]], fault=0, codes=[0]);
static_harness!(c01_q_st_se_def_n2g6_x_pl, n=2, words=1, unwind=6, Sem::ST, Enc::Default, Kind::SE, Pres::Plain, cert=false, ANSWER, qs=[[]], fault=0, codes=[6]);
static_harness!(c01_q_st_se_def_n2g8_x_pl, n=2, words=1, unwind=6, Sem::ST, Enc::Default, Kind::SE, Pres::Plain, cert=false, ANSWER, qs=[[]], fault=0, codes=[8]);
static_harness!(c01_q_st_se_def_n2g10_x_pl, n=2, words=1, unwind=6, Sem::ST, Enc::Default, Kind::SE, Pres::Plain, cert=false, ANSWER, qs=[[]], fault=0, codes=[10]);
static_harness!(c01_q_st_se_def_n2g14_x_pl, n=2, words=1, unwind=6, Sem::ST, Enc::Default, Kind::SE, Pres::Plain, cert=false, ANSWER, qs=[[]], fault=0, codes=[14]);
static_harness!(c01_q_gr_se_def_n2g2_x_s1, n=2, words=1, unwind=6, Sem::GR, Enc::Default, Kind::SE, Pres::SparseFirst, cert=false, ANSWER, qs=[[]], fault=0, codes=[2]);
static_harness!(c01_q_gr_se_def_n2g6_x_du, n=2, words=1, unwind=6, Sem::GR, Enc::Default, Kind::SE, Pres::Dup, cert=false, ANSWER, qs=[[]], fault=0, codes=[6]);
static_harness!(c01_q_gr_se_def_n2g10_x_pl, n=2, words=1, unwind=6, Sem::GR, Enc::Default, Kind::SE, Pres::Plain, cert=false, ANSWER, qs=[[]], fault=0, codes=[10]);
static_harness!(c01_x_co_se_def_n2g14_x_s2, n=2, words=1, unwind=6, Sem::CO, Enc::Default, Kind::SE, Pres::SparseMid, cert=false, ANSWER, qs=[[]], fault=0, codes=[14]);
static_harness!(c01_q_st_se_def_n3g42_x_pl, n=3, words=1, unwind=7, Sem::ST, Enc::Default, Kind::SE, Pres::Plain, cert=false, ANSWER, qs=[[]], fault=0, codes=[42]);
static_harness!(c01_t_st_se_def_n2g9_x_pl, n=2, words=1, unwind=6, Sem::ST, Enc::Default, Kind::SE, Pres::Plain, cert=false, ANSWER, qs=[[]], fault=0, codes=[9]);
static_harness!(c01_t_st_se_def_n2g2_x_pl, n=2, words=1, unwind=6, Sem::ST, Enc::Default, Kind::SE, Pres::Plain, cert=false, ANSWER, qs=[[]], fault=0, codes=[2]);
static_harness!(c01_t_st_se_def_n2g7_x_pl, n=2, words=1, unwind=6, Sem::ST, Enc::Default, Kind::SE, Pres::Plain, cert=false, ANSWER, qs=[[]], fault=0, codes=[7]);
static_harness!(c01_t_st_se_def_n2g11_x_pl, n=2, words=1, unwind=6, Sem::ST, Enc::Default, Kind::SE, Pres::Plain, cert=false, ANSWER, qs=[[]], fault=0, codes=[11]);
static_harness!(c01_t_st_se_def_n2g6_x_s1, n=2, words=1, unwind=6, Sem::ST, Enc::Default, Kind::SE, Pres::SparseFirst, cert=false, ANSWER, qs=[[]], fault=0, codes=[6]);
static_harness!(c01_t_st_se_def_n2g14_x_s2, n=2, words=1, unwind=6, Sem::ST, Enc::Default, Kind::SE, Pres::SparseMid, cert=false, ANSWER, qs=[[]], fault=0, codes=[14]);
static_harness!(c01_t_st_se_def_n2g10_x_du, n=2, words=1, unwind=6, Sem::ST, Enc::Default, Kind::SE, Pres::Dup, cert=false, ANSWER, qs=[[]], fault=0, codes=[10]);
static_harness!(c01_t_st_se_def_n3g98_x_pl, n=3, words=1, unwind=7, Sem::ST, Enc::Default, Kind::SE, Pres::Plain, cert=false, ANSWER, qs=[[]], fault=0, codes=[98]);
static_harness!(c01_t_st_se_def_n3g290_x_pl, n=3, words=1, unwind=7, Sem::ST, Enc::Default, Kind::SE, Pres::Plain, cert=false, ANSWER, qs=[[]], fault=0, codes=[290]);
static_harness!(c01_t_st_se_def_n3g34_x_pl, n=3, words=1, unwind=7, Sem::ST, Enc::Default, Kind::SE, Pres::Plain, cert=false, ANSWER, qs=[[]], fault=0, codes=[34]);
static_harness!(c01_t_gr_se_def_n3g42_x_du, n=3, words=1, unwind=7, Sem::GR, Enc::Default, Kind::SE, Pres::Dup, cert=false, ANSWER, qs=[[]], fault=0, codes=[42]);
static_harness!(c01_t_gr_se_def_n3g290_x_du, n=3, words=1, unwind=7, Sem::GR, Enc::Default, Kind::SE, Pres::Dup, cert=false, ANSWER, qs=[[]], fault=0, codes=[290]);
static_harness!(c01_t_gr_se_def_n3g98_x_du, n=3, words=1, unwind=7, Sem::GR, Enc::Default, Kind::SE, Pres::Dup, cert=false, ANSWER, qs=[[]], fault=0, codes=[98]);
static_harness!(c02_q_st_dc_def_n2g2_b_pl, n=2, words=1, unwind=6, Sem::ST, Enc::Default, Kind::DC, Pres::Plain, cert=false, ANSWER, qs=[[1]], fault=0, codes=[2]);
static_harness!(c02_q_st_dc_def_n2g6_a_pl, n=2, words=1, unwind=6, Sem::ST, Enc::Default, Kind::DC, Pres::Plain, cert=false, ANSWER, qs=[[0]], fault=0, codes=[6]);
static_harness!(c02_q_st_dc_def_n2g10_a_pl, n=2, words=1, unwind=6, Sem::ST, Enc::Default, Kind::DC, Pres::Plain, cert=false, ANSWER, qs=[[0]], fault=0, codes=[10]);
static_harness!(c02_q_st_dc_def_n2g14_b_pl, n=2, words=1, unwind=6, Sem::ST, Enc::Default, Kind::DC, Pres::Plain, cert=false, ANSWER, qs=[[1]], fault=0, codes=[14]);
static_harness!(c02_q_st_dc_def_n2g0_b_pl, n=2, words=1, unwind=6, Sem::ST, Enc::Default, Kind::DC, Pres::Plain, cert=false, ANSWER, qs=[[1]], fault=0, codes=[0]);
static_harness!(c02_q_st_dc_def_n2g9_a_pl, n=2, words=1, unwind=6, Sem::ST, Enc::Default, Kind::DC, Pres::Plain, cert=false, ANSWER, qs=[[0]], fault=0, codes=[9]);
static_harness!(c02_q_co_dc_aux_n2g6_a_pl, n=2, words=1, unwind=7, Sem::CO, Enc::AuxCo, Kind::DC, Pres::Plain, cert=false, ANSWER, qs=[[0]], fault=0, codes=[6]);
static_harness!(c02_q_co_dc_aux_n2g14_a_pl, n=2, words=1, unwind=7, Sem::CO, Enc::AuxCo, Kind::DC, Pres::Plain, cert=false, ANSWER, qs=[[0]], fault=0, codes=[14]);
static_harness!(c02_q_co_dc_aux_n2g10_b_pl, n=2, words=1, unwind=7, Sem::CO, Enc::AuxCo, Kind::DC, Pres::Plain, cert=false, ANSWER, qs=[[1]], fault=0, codes=[10]);
static_harness!(c02_q_co_dc_exp_n2g14_b_pl, n=2, words=1, unwind=6, Sem::CO, Enc::ExpCo, Kind::DC, Pres::Plain, cert=false, ANSWER, qs=[[1]], fault=0, codes=[14]);
static_harness!(c02_q_co_dc_hyb_n2g6_b_pl, n=2, words=1, unwind=6, Sem::CO, Enc::Hybrid, Kind::DC, Pres::Plain, cert=false, ANSWER, qs=[[1]], fault=0, codes=[6]);
static_harness!(c02_q_co_dc_def_n2g7_b_pl, n=2, words=1, unwind=7, Sem::CO, Enc::Default, Kind::DC, Pres::Plain, cert=false, ANSWER, qs=[[1]], fault=0, codes=[7]);
static_harness!(c02_q_pr_dc_exp_n2g2_b_pl, n=2, words=1, unwind=6, Sem::PR, Enc::ExpCo, Kind::DC, Pres::Plain, cert=false, ANSWER, qs=[[1]], fault=0, codes=[2]);
static_harness!(c02_q_gr_dc_def_n2g10_a_s1, n=2, words=1, unwind=6, Sem::GR, Enc::Default, Kind::DC, Pres::SparseFirst, cert=false, ANSWER, qs=[[0]], fault=0, codes=[10]);
static_harness!(c02_q_st_dc_def_n3g42_c_pl, n=3, words=1, unwind=7, Sem::ST, Enc::Default, Kind::DC, Pres::Plain, cert=false, ANSWER, qs=[[2]], fault=0, codes=[42]);
static_harness!(c02_t_st_dc_def_n2g2_a_pl, n=2, words=1, unwind=6, Sem::ST, Enc::Default, Kind::DC, Pres::Plain, cert=false, ANSWER, qs=[[0]], fault=0, codes=[2]);
static_harness!(c02_t_st_dc_def_n2g2_b_pl, n=2, words=1, unwind=6, Sem::ST, Enc::Default, Kind::DC, Pres::Plain, cert=false, ANSWER, qs=[[1]], fault=0, codes=[2]);
static_harness!(c02_t_st_dc_def_n2g6_a_pl, n=2, words=1, unwind=6, Sem::ST, Enc::Default, Kind::DC, Pres::Plain, cert=false, ANSWER, qs=[[0]], fault=0, codes=[6]);
static_harness!(c02_t_st_dc_def_n2g6_b_pl, n=2, words=1, unwind=6, Sem::ST, Enc::Default, Kind::DC, Pres::Plain, cert=false, ANSWER, qs=[[1]], fault=0, codes=[6]);
static_harness!(c02_t_st_dc_def_n2g10_a_pl, n=2, words=1, unwind=6, Sem::ST, Enc::Default, Kind::DC, Pres::Plain, cert=false, ANSWER, qs=[[0]], fault=0, codes=[10]);
static_harness!(c02_t_st_dc_def_n2g10_b_pl, n=2, words=1, unwind=6, Sem::ST, Enc::Default, Kind::DC, Pres::Plain, cert=false, ANSWER, qs=[[1]], fault=0, codes=[10]);
static_harness!(c02_t_st_dc_def_n2g14_a_pl, n=2, words=1, unwind=6, Sem::ST, Enc::Default, Kind::DC, Pres::Plain, cert=false, ANSWER, qs=[[0]], fault=0, codes=[14]);
static_harness!(c02_t_st_dc_def_n2g14_b_pl, n=2, words=1, unwind=6, Sem::ST, Enc::Default, Kind::DC, Pres::Plain, cert=false, ANSWER, qs=[[1]], fault=0, codes=[14]);
static_harness!(c02_t_st_dc_def_n2g8_a_pl, n=2, words=1, unwind=6, Sem::ST, Enc::Default, Kind::DC, Pres::Plain, cert=false, ANSWER, qs=[[0]], fault=0, codes=[8]);
static_harness!(c02_t_st_dc_def_n2g8_b_pl, n=2, words=1, unwind=6, Sem::ST, Enc::Default, Kind::DC, Pres::Plain, cert=false, ANSWER, qs=[[1]], fault=0, codes=[8]);
static_harness!(c02_t_st_dc_def_n2g7_a_pl, n=2, words=1, unwind=6, Sem::ST, Enc::Default, Kind::DC, Pres::Plain, cert=false, ANSWER, qs=[[0]], fault=0, codes=[7]);
static_harness!(c02_t_st_dc_def_n2g7_b_pl, n=2, words=1, unwind=6, Sem::ST, Enc::Default, Kind::DC, Pres::Plain, cert=false, ANSWER, qs=[[1]], fault=0, codes=[7]);
static_harness!(c02_t_st_dc_def_n2g11_a_pl, n=2, words=1, unwind=6, Sem::ST, Enc::Default, Kind::DC, Pres::Plain, cert=false, ANSWER, qs=[[0]], fault=0, codes=[11]);
static_harness!(c02_t_st_dc_def_n2g11_b_pl, n=2, words=1, unwind=6, Sem::ST, Enc::Default, Kind::DC, Pres::Plain, cert=false, ANSWER, qs=[[1]], fault=0, codes=[11]);
static_harness!(c02_t_co_dc_aux_n2g6_a_pl, n=2, words=1, unwind=7, Sem::CO, Enc::AuxCo, Kind::DC, Pres::Plain, cert=false, ANSWER, qs=[[0]], fault=0, codes=[6]);
static_harness!(c02_t_co_dc_aux_n2g6_b_pl, n=2, words=1, unwind=7, Sem::CO, Enc::AuxCo, Kind::DC, Pres::Plain, cert=false, ANSWER, qs=[[1]], fault=0, codes=[6]);
static_harness!(c02_t_co_dc_aux_n2g14_a_pl, n=2, words=1, unwind=7, Sem::CO, Enc::AuxCo, Kind::DC, Pres::Plain, cert=false, ANSWER, qs=[[0]], fault=0, codes=[14]);
static_harness!(c02_t_co_dc_aux_n2g14_b_pl, n=2, words=1, unwind=7, Sem::CO, Enc::AuxCo, Kind::DC, Pres::Plain, cert=false, ANSWER, qs=[[1]], fault=0, codes=[14]);
static_harness!(c02_t_co_dc_aux_n2g7_a_pl, n=2, words=1, unwind=7, Sem::CO, Enc::AuxCo, Kind::DC, Pres::Plain, cert=false, ANSWER, qs=[[0]], fault=0, codes=[7]);
static_harness!(c02_t_co_dc_aux_n2g7_b_pl, n=2, words=1, unwind=7, Sem::CO, Enc::AuxCo, Kind::DC, Pres::Plain, cert=false, ANSWER, qs=[[1]], fault=0, codes=[7]);
static_harness!(c02_t_co_dc_aux_n2g10_a_pl, n=2, words=1, unwind=7, Sem::CO, Enc::AuxCo, Kind::DC, Pres::Plain, cert=false, ANSWER, qs=[[0]], fault=0, codes=[10]);
static_harness!(c02_t_co_dc_aux_n2g10_b_pl, n=2, words=1, unwind=7, Sem::CO, Enc::AuxCo, Kind::DC, Pres::Plain, cert=false, ANSWER, qs=[[1]], fault=0, codes=[10]);
static_harness!(c02_t_co_dc_aux_n2g0_a_pl, n=2, words=1, unwind=7, Sem::CO, Enc::AuxCo, Kind::DC, Pres::Plain, cert=false, ANSWER, qs=[[0]], fault=0, codes=[0]);
static_harness!(c02_t_co_dc_aux_n2g0_b_pl, n=2, words=1, unwind=7, Sem::CO, Enc::AuxCo, Kind::DC, Pres::Plain, cert=false, ANSWER, qs=[[1]], fault=0, codes=[0]);
static_harness!(c02_t_co_dc_exp_n2g6_a_pl, n=2, words=1, unwind=6, Sem::CO, Enc::ExpCo, Kind::DC, Pres::Plain, cert=false, ANSWER, qs=[[0]], fault=0, codes=[6]);
static_harness!(c02_t_co_dc_hyb_n2g14_a_pl, n=2, words=1, unwind=6, Sem::CO, Enc::Hybrid, Kind::DC, Pres::Plain, cert=false, ANSWER, qs=[[0]], fault=0, codes=[14]);
static_harness!(c02_t_co_dc_aux_n2g6_b_du, n=2, words=1, unwind=7, Sem::CO, Enc::AuxCo, Kind::DC, Pres::Dup, cert=false, ANSWER, qs=[[1]], fault=0, codes=[6]);
static_harness!(c02_t_co_dc_aux_n2g14_b_s1, n=2, words=1, unwind=7, Sem::CO, Enc::AuxCo, Kind::DC, Pres::SparseFirst, cert=false, ANSWER, qs=[[1]], fault=0, codes=[14]);
static_harness!(c02_t_co_dc_def_n2g2_a_s2, n=2, words=1, unwind=7, Sem::CO, Enc::Default, Kind::DC, Pres::SparseMid, cert=false, ANSWER, qs=[[0]], fault=0, codes=[2]);
static_harness!(c02_t_st_dc_def_n3g42_a_pl, n=3, words=1, unwind=7, Sem::ST, Enc::Default, Kind::DC, Pres::Plain, cert=false, ANSWER, qs=[[0]], fault=0, codes=[42]);
static_harness!(c02_t_st_dc_def_n3g42_b_pl, n=3, words=1, unwind=7, Sem::ST, Enc::Default, Kind::DC, Pres::Plain, cert=false, ANSWER, qs=[[1]], fault=0, codes=[42]);
static_harness!(c02_t_st_dc_def_n3g98_a_pl, n=3, words=1, unwind=7, Sem::ST, Enc::Default, Kind::DC, Pres::Plain, cert=false, ANSWER, qs=[[0]], fault=0, codes=[98]);
static_harness!(c02_t_st_dc_def_n3g290_a_pl, n=3, words=1, unwind=7, Sem::ST, Enc::Default, Kind::DC, Pres::Plain, cert=false, ANSWER, qs=[[0]], fault=0, codes=[290]);
static_harness!(c02_t_st_dc_def_n3g8_a_pl, n=3, words=1, unwind=7, Sem::ST, Enc::Default, Kind::DC, Pres::Plain, cert=false, ANSWER, qs=[[0]], fault=0, codes=[8]);
static_harness!(c02_t_st_dc_def_n3g34_c_pl, n=3, words=1, unwind=7, Sem::ST, Enc::Default, Kind::DC, Pres::Plain, cert=false, ANSWER, qs=[[2]], fault=0, codes=[34]);
static_harness!(c02_t_co_dc_aux_n3g137_c_pl, n=3, words=2, unwind=9, Sem::CO, Enc::AuxCo, Kind::DC, Pres::Plain, cert=false, ANSWER, qs=[[2]], fault=0, codes=[137]);
static_harness!(c02_t_co_dc_aux_n3g42_c_pl, n=3, words=2, unwind=9, Sem::CO, Enc::AuxCo, Kind::DC, Pres::Plain, cert=false, ANSWER, qs=[[2]], fault=0, codes=[42]);
static_harness!(c02_t_co_dc_aux_n3g290_b_pl, n=3, words=2, unwind=9, Sem::CO, Enc::AuxCo, Kind::DC, Pres::Plain, cert=false, ANSWER, qs=[[1]], fault=0, codes=[290]);
static_harness!(c02_t_gr_dc_def_n3g290_c_du, n=3, words=1, unwind=7, Sem::GR, Enc::Default, Kind::DC, Pres::Dup, cert=false, ANSWER, qs=[[2]], fault=0, codes=[290]);
static_harness!(c02_t_gr_dc_def_n3g42_a_du, n=3, words=1, unwind=7, Sem::GR, Enc::Default, Kind::DC, Pres::Dup, cert=false, ANSWER, qs=[[0]], fault=0, codes=[42]);
static_harness!(c03_q_st_ds_def_n2g2_a_pl, n=2, words=1, unwind=6, Sem::ST, Enc::Default, Kind::DS, Pres::Plain, cert=false, ANSWER, qs=[[0]], fault=0, codes=[2]);
static_harness!(c03_q_st_ds_def_n2g6_a_pl, n=2, words=1, unwind=6, Sem::ST, Enc::Default, Kind::DS, Pres::Plain, cert=false, ANSWER, qs=[[0]], fault=0, codes=[6]);
static_harness!(c03_q_st_ds_def_n2g10_b_pl, n=2, words=1, unwind=6, Sem::ST, Enc::Default, Kind::DS, Pres::Plain, cert=false, ANSWER, qs=[[1]], fault=0, codes=[10]);
static_harness!(c03_q_st_ds_def_n2g14_a_pl, n=2, words=1, unwind=6, Sem::ST, Enc::Default, Kind::DS, Pres::Plain, cert=false, ANSWER, qs=[[0]], fault=0, codes=[14]);
static_harness!(c03_q_st_ds_def_n2g8_a_pl, n=2, words=1, unwind=6, Sem::ST, Enc::Default, Kind::DS, Pres::Plain, cert=false, ANSWER, qs=[[0]], fault=0, codes=[8]);
static_harness!(c03_q_st_ds_def_n2g9_b_pl, n=2, words=1, unwind=6, Sem::ST, Enc::Default, Kind::DS, Pres::Plain, cert=false, ANSWER, qs=[[1]], fault=0, codes=[9]);
static_harness!(c03_q_gr_ds_def_n2g2_b_pl, n=2, words=1, unwind=6, Sem::GR, Enc::Default, Kind::DS, Pres::Plain, cert=false, ANSWER, qs=[[1]], fault=0, codes=[2]);
static_harness!(c03_q_gr_ds_def_n2g6_a_du, n=2, words=1, unwind=6, Sem::GR, Enc::Default, Kind::DS, Pres::Dup, cert=false, ANSWER, qs=[[0]], fault=0, codes=[6]);
static_harness!(c03_q_gr_ds_def_n2g10_a_s1, n=2, words=1, unwind=6, Sem::GR, Enc::Default, Kind::DS, Pres::SparseFirst, cert=false, ANSWER, qs=[[0]], fault=0, codes=[10]);
static_harness!(c03_q_co_ds_def_n2g2_a_s2, n=2, words=1, unwind=6, Sem::CO, Enc::Default, Kind::DS, Pres::SparseMid, cert=false, ANSWER, qs=[[0]], fault=0, codes=[2]);
static_harness!(c03_q_st_ds_def_n3g42_a_pl, n=3, words=1, unwind=7, Sem::ST, Enc::Default, Kind::DS, Pres::Plain, cert=false, ANSWER, qs=[[0]], fault=0, codes=[42]);
static_harness!(c03_q_gr_ds_def_n3g290_c_du, n=3, words=1, unwind=7, Sem::GR, Enc::Default, Kind::DS, Pres::Dup, cert=false, ANSWER, qs=[[2]], fault=0, codes=[290]);
static_harness!(c03_t_st_ds_def_n2g2_a_pl, n=2, words=1, unwind=6, Sem::ST, Enc::Default, Kind::DS, Pres::Plain, cert=false, ANSWER, qs=[[0]], fault=0, codes=[2]);
static_harness!(c03_t_st_ds_def_n2g2_b_pl, n=2, words=1, unwind=6, Sem::ST, Enc::Default, Kind::DS, Pres::Plain, cert=false, ANSWER, qs=[[1]], fault=0, codes=[2]);
static_harness!(c03_t_st_ds_def_n2g6_a_pl, n=2, words=1, unwind=6, Sem::ST, Enc::Default, Kind::DS, Pres::Plain, cert=false, ANSWER, qs=[[0]], fault=0, codes=[6]);
static_harness!(c03_t_st_ds_def_n2g6_b_pl, n=2, words=1, unwind=6, Sem::ST, Enc::Default, Kind::DS, Pres::Plain, cert=false, ANSWER, qs=[[1]], fault=0, codes=[6]);
static_harness!(c03_t_st_ds_def_n2g10_a_pl, n=2, words=1, unwind=6, Sem::ST, Enc::Default, Kind::DS, Pres::Plain, cert=false, ANSWER, qs=[[0]], fault=0, codes=[10]);
static_harness!(c03_t_st_ds_def_n2g10_b_pl, n=2, words=1, unwind=6, Sem::ST, Enc::Default, Kind::DS, Pres::Plain, cert=false, ANSWER, qs=[[1]], fault=0, codes=[10]);
static_harness!(c03_t_st_ds_def_n2g14_a_pl, n=2, words=1, unwind=6, Sem::ST, Enc::Default, Kind::DS, Pres::Plain, cert=false, ANSWER, qs=[[0]], fault=0, codes=[14]);
static_harness!(c03_t_st_ds_def_n2g14_b_pl, n=2, words=1, unwind=6, Sem::ST, Enc::Default, Kind::DS, Pres::Plain, cert=false, ANSWER, qs=[[1]], fault=0, codes=[14]);
static_harness!(c03_t_st_ds_def_n2g0_a_pl, n=2, words=1, unwind=6, Sem::ST, Enc::Default, Kind::DS, Pres::Plain, cert=false, ANSWER, qs=[[0]], fault=0, codes=[0]);
static_harness!(c03_t_st_ds_def_n2g0_b_pl, n=2, words=1, unwind=6, Sem::ST, Enc::Default, Kind::DS, Pres::Plain, cert=false, ANSWER, qs=[[1]], fault=0, codes=[0]);
static_harness!(c03_t_st_ds_def_n2g7_a_pl, n=2, words=1, unwind=6, Sem::ST, Enc::Default, Kind::DS, Pres::Plain, cert=false, ANSWER, qs=[[0]], fault=0, codes=[7]);
static_harness!(c03_t_st_ds_def_n2g7_b_pl, n=2, words=1, unwind=6, Sem::ST, Enc::Default, Kind::DS, Pres::Plain, cert=false, ANSWER, qs=[[1]], fault=0, codes=[7]);
static_harness!(c03_t_st_ds_def_n2g11_a_pl, n=2, words=1, unwind=6, Sem::ST, Enc::Default, Kind::DS, Pres::Plain, cert=false, ANSWER, qs=[[0]], fault=0, codes=[11]);
static_harness!(c03_t_st_ds_def_n2g11_b_pl, n=2, words=1, unwind=6, Sem::ST, Enc::Default, Kind::DS, Pres::Plain, cert=false, ANSWER, qs=[[1]], fault=0, codes=[11]);
static_harness!(c03_t_st_ds_def_n2g6_b_s1, n=2, words=1, unwind=6, Sem::ST, Enc::Default, Kind::DS, Pres::SparseFirst, cert=false, ANSWER, qs=[[1]], fault=0, codes=[6]);
static_harness!(c03_t_st_ds_def_n2g14_b_du, n=2, words=1, unwind=6, Sem::ST, Enc::Default, Kind::DS, Pres::Dup, cert=false, ANSWER, qs=[[1]], fault=0, codes=[14]);
static_harness!(c03_t_st_ds_def_n2g2_b_s2, n=2, words=1, unwind=6, Sem::ST, Enc::Default, Kind::DS, Pres::SparseMid, cert=false, ANSWER, qs=[[1]], fault=0, codes=[2]);
static_harness!(c03_t_st_ds_def_n3g42_b_pl, n=3, words=1, unwind=7, Sem::ST, Enc::Default, Kind::DS, Pres::Plain, cert=false, ANSWER, qs=[[1]], fault=0, codes=[42]);
static_harness!(c03_t_st_ds_def_n3g42_c_pl, n=3, words=1, unwind=7, Sem::ST, Enc::Default, Kind::DS, Pres::Plain, cert=false, ANSWER, qs=[[2]], fault=0, codes=[42]);
static_harness!(c03_t_st_ds_def_n3g98_b_pl, n=3, words=1, unwind=7, Sem::ST, Enc::Default, Kind::DS, Pres::Plain, cert=false, ANSWER, qs=[[1]], fault=0, codes=[98]);
static_harness!(c03_t_st_ds_def_n3g290_a_pl, n=3, words=1, unwind=7, Sem::ST, Enc::Default, Kind::DS, Pres::Plain, cert=false, ANSWER, qs=[[0]], fault=0, codes=[290]);
static_harness!(c03_t_st_ds_def_n3g8_c_pl, n=3, words=1, unwind=7, Sem::ST, Enc::Default, Kind::DS, Pres::Plain, cert=false, ANSWER, qs=[[2]], fault=0, codes=[8]);
static_harness!(c03_t_st_ds_def_n3g34_b_pl, n=3, words=1, unwind=7, Sem::ST, Enc::Default, Kind::DS, Pres::Plain, cert=false, ANSWER, qs=[[1]], fault=0, codes=[34]);
static_harness!(c03_t_gr_ds_def_n3g34_c_du, n=3, words=1, unwind=7, Sem::GR, Enc::Default, Kind::DS, Pres::Dup, cert=false, ANSWER, qs=[[2]], fault=0, codes=[34]);
static_harness!(c03_t_gr_ds_def_n3g42_c_du, n=3, words=1, unwind=7, Sem::GR, Enc::Default, Kind::DS, Pres::Dup, cert=false, ANSWER, qs=[[2]], fault=0, codes=[42]);
static_harness!(c03_t_gr_ds_def_n3g290_b_du, n=3, words=1, unwind=7, Sem::GR, Enc::Default, Kind::DS, Pres::Dup, cert=false, ANSWER, qs=[[1]], fault=0, codes=[290]);
static_harness!(c03_t_gr_ds_def_n3g137_a_du, n=3, words=1, unwind=7, Sem::GR, Enc::Default, Kind::DS, Pres::Dup, cert=false, ANSWER, qs=[[0]], fault=0, codes=[137]);
static_harness!(c04_x_st_dc_def_n2g0_a_pl_cert, n=2, words=1, unwind=6, Sem::ST, Enc::Default, Kind::DC, Pres::Plain, cert=true, CERT, qs=[[0]], fault=0, codes=[0]);
static_harness!(c04_q_st_dc_def_n2g2_a_pl_cert, n=2, words=1, unwind=6, Sem::ST, Enc::Default, Kind::DC, Pres::Plain, cert=true, CERT, qs=[[0]], fault=0, codes=[2]);
static_harness!(c04_q_st_dc_def_n2g6_b_pl_cert, n=2, words=1, unwind=6, Sem::ST, Enc::Default, Kind::DC, Pres::Plain, cert=true, CERT, qs=[[1]], fault=0, codes=[6]);
static_harness!(c04_q_st_dc_def_n2g14_a_pl_cert, n=2, words=1, unwind=6, Sem::ST, Enc::Default, Kind::DC, Pres::Plain, cert=true, CERT, qs=[[0]], fault=0, codes=[14]);
static_harness!(c04_q_st_ds_def_n2g6_a_pl_cert, n=2, words=1, unwind=6, Sem::ST, Enc::Default, Kind::DS, Pres::Plain, cert=true, CERT, qs=[[0]], fault=0, codes=[6]);
static_harness!(c04_q_st_ds_def_n2g10_a_pl_cert, n=2, words=1, unwind=6, Sem::ST, Enc::Default, Kind::DS, Pres::Plain, cert=true, CERT, qs=[[0]], fault=0, codes=[10]);
static_harness!(c04_q_st_ds_def_n2g2_b_pl_cert, n=2, words=1, unwind=6, Sem::ST, Enc::Default, Kind::DS, Pres::Plain, cert=true, CERT, qs=[[1]], fault=0, codes=[2]);
static_harness!(c04_x_co_dc_aux_n2g6_a_pl_cert, n=2, words=1, unwind=7, Sem::CO, Enc::AuxCo, Kind::DC, Pres::Plain, cert=true, CERT, qs=[[0]], fault=0, codes=[6]);
static_harness!(c04_q_gr_ds_def_n2g2_b_pl_cert, n=2, words=1, unwind=6, Sem::GR, Enc::Default, Kind::DS, Pres::Plain, cert=true, CERT, qs=[[1]], fault=0, codes=[2]);
static_harness!(c04_q_gr_dc_def_n2g2_a_s2_cert, n=2, words=1, unwind=6, Sem::GR, Enc::Default, Kind::DC, Pres::SparseMid, cert=true, CERT, qs=[[0]], fault=0, codes=[2]);
static_harness!(c04_t_st_dc_def_n2g2_a_pl_cert, n=2, words=1, unwind=6, Sem::ST, Enc::Default, Kind::DC, Pres::Plain, cert=true, CERT, qs=[[0]], fault=0, codes=[2]);
static_harness!(c04_t_st_ds_def_n2g2_a_pl_cert, n=2, words=1, unwind=6, Sem::ST, Enc::Default, Kind::DS, Pres::Plain, cert=true, CERT, qs=[[0]], fault=0, codes=[2]);
static_harness!(c04_t_st_dc_def_n2g2_b_pl_cert, n=2, words=1, unwind=6, Sem::ST, Enc::Default, Kind::DC, Pres::Plain, cert=true, CERT, qs=[[1]], fault=0, codes=[2]);
static_harness!(c04_t_st_ds_def_n2g2_b_pl_cert, n=2, words=1, unwind=6, Sem::ST, Enc::Default, Kind::DS, Pres::Plain, cert=true, CERT, qs=[[1]], fault=0, codes=[2]);
static_harness!(c04_t_st_dc_def_n2g6_a_pl_cert, n=2, words=1, unwind=6, Sem::ST, Enc::Default, Kind::DC, Pres::Plain, cert=true, CERT, qs=[[0]], fault=0, codes=[6]);
static_harness!(c04_t_st_ds_def_n2g6_a_pl_cert, n=2, words=1, unwind=6, Sem::ST, Enc::Default, Kind::DS, Pres::Plain, cert=true, CERT, qs=[[0]], fault=0, codes=[6]);
static_harness!(c04_t_st_dc_def_n2g6_b_pl_cert, n=2, words=1, unwind=6, Sem::ST, Enc::Default, Kind::DC, Pres::Plain, cert=true, CERT, qs=[[1]], fault=0, codes=[6]);
static_harness!(c04_t_st_ds_def_n2g6_b_pl_cert, n=2, words=1, unwind=6, Sem::ST, Enc::Default, Kind::DS, Pres::Plain, cert=true, CERT, qs=[[1]], fault=0, codes=[6]);
static_harness!(c04_t_st_dc_def_n2g14_a_pl_cert, n=2, words=1, unwind=6, Sem::ST, Enc::Default, Kind::DC, Pres::Plain, cert=true, CERT, qs=[[0]], fault=0, codes=[14]);
static_harness!(c04_t_st_ds_def_n2g14_a_pl_cert, n=2, words=1, unwind=6, Sem::ST, Enc::Default, Kind::DS, Pres::Plain, cert=true, CERT, qs=[[0]], fault=0, codes=[14]);
static_harness!(c04_t_st_dc_def_n2g14_b_pl_cert, n=2, words=1, unwind=6, Sem::ST, Enc::Default, Kind::DC, Pres::Plain, cert=true, CERT, qs=[[1]], fault=0, codes=[14]);
static_harness!(c04_t_st_ds_def_n2g14_b_pl_cert, n=2, words=1, unwind=6, Sem::ST, Enc::Default, Kind::DS, Pres::Plain, cert=true, CERT, qs=[[1]], fault=0, codes=[14]);
static_harness!(c04_t_st_dc_def_n2g8_a_pl_cert, n=2, words=1, unwind=6, Sem::ST, Enc::Default, Kind::DC, Pres::Plain, cert=true, CERT, qs=[[0]], fault=0, codes=[8]);
static_harness!(c04_t_st_ds_def_n2g8_a_pl_cert, n=2, words=1, unwind=6, Sem::ST, Enc::Default, Kind::DS, Pres::Plain, cert=true, CERT, qs=[[0]], fault=0, codes=[8]);
static_harness!(c04_t_st_dc_def_n2g8_b_pl_cert, n=2, words=1, unwind=6, Sem::ST, Enc::Default, Kind::DC, Pres::Plain, cert=true, CERT, qs=[[1]], fault=0, codes=[8]);
static_harness!(c04_t_st_ds_def_n2g8_b_pl_cert, n=2, words=1, unwind=6, Sem::ST, Enc::Default, Kind::DS, Pres::Plain, cert=true, CERT, qs=[[1]], fault=0, codes=[8]);
static_harness!(c04_t_st_dc_def_n3g42_a_pl_cert, n=3, words=1, unwind=7, Sem::ST, Enc::Default, Kind::DC, Pres::Plain, cert=true, CERT, qs=[[0]], fault=0, codes=[42]);
static_harness!(c04_t_st_dc_def_n3g42_c_pl_cert, n=3, words=1, unwind=7, Sem::ST, Enc::Default, Kind::DC, Pres::Plain, cert=true, CERT, qs=[[2]], fault=0, codes=[42]);
static_harness!(c04_t_st_dc_def_n3g98_a_pl_cert, n=3, words=1, unwind=7, Sem::ST, Enc::Default, Kind::DC, Pres::Plain, cert=true, CERT, qs=[[0]], fault=0, codes=[98]);
static_harness!(c04_t_st_ds_def_n3g42_b_pl_cert, n=3, words=1, unwind=7, Sem::ST, Enc::Default, Kind::DS, Pres::Plain, cert=true, CERT, qs=[[1]], fault=0, codes=[42]);
static_harness!(c04_t_st_ds_def_n3g34_b_pl_cert, n=3, words=1, unwind=7, Sem::ST, Enc::Default, Kind::DS, Pres::Plain, cert=true, CERT, qs=[[1]], fault=0, codes=[34]);
static_harness!(c07_x_co_dc_aux_n2g6_ab_pl_cert, n=2, words=1, unwind=7, Sem::CO, Enc::AuxCo, Kind::DC, Pres::Plain, cert=true, CERT, qs=[[0, 1]], fault=0, codes=[6]);
static_harness!(c07_x_co_dc_aux_n2g0_ab_pl_cert, n=2, words=1, unwind=7, Sem::CO, Enc::AuxCo, Kind::DC, Pres::Plain, cert=true, CERT, qs=[[0, 1]], fault=0, codes=[0]);
static_harness!(c07_x_co_dc_aux_n2g14_ba_pl_cert, n=2, words=1, unwind=7, Sem::CO, Enc::AuxCo, Kind::DC, Pres::Plain, cert=true, CERT, qs=[[1, 0]], fault=0, codes=[14]);
static_harness!(c07_q_co_dc_aux_n2g6_ab_pl, n=2, words=1, unwind=7, Sem::CO, Enc::AuxCo, Kind::DC, Pres::Plain, cert=false, ANSWER, qs=[[0, 1]], fault=0, codes=[6]);
static_harness!(c07_q_st_dc_def_n2g2_ba_pl_cert, n=2, words=1, unwind=6, Sem::ST, Enc::Default, Kind::DC, Pres::Plain, cert=true, CERT, qs=[[1, 0]], fault=0, codes=[2]);
static_harness!(c07_q_st_dc_def_n2g9_aa_pl_cert, n=2, words=1, unwind=6, Sem::ST, Enc::Default, Kind::DC, Pres::Plain, cert=true, CERT, qs=[[0, 0]], fault=0, codes=[9]);
static_harness!(c07_q_st_dc_def_n2g10_ba_pl_cert, n=2, words=1, unwind=6, Sem::ST, Enc::Default, Kind::DC, Pres::Plain, cert=true, CERT, qs=[[1, 0]], fault=0, codes=[10]);
static_harness!(c07_q_st_ds_def_n2g6_ab_pl_cert, n=2, words=1, unwind=6, Sem::ST, Enc::Default, Kind::DS, Pres::Plain, cert=true, CERT, qs=[[0, 1]], fault=0, codes=[6]);
static_harness!(c07_q_st_ds_def_n2g2_bb_pl_cert, n=2, words=1, unwind=6, Sem::ST, Enc::Default, Kind::DS, Pres::Plain, cert=true, CERT, qs=[[1, 1]], fault=0, codes=[2]);
static_harness!(c07_q_gr_ds_def_n2g2_ba_pl_cert, n=2, words=1, unwind=6, Sem::GR, Enc::Default, Kind::DS, Pres::Plain, cert=true, CERT, qs=[[1, 0]], fault=0, codes=[2]);
static_harness!(c07_q_st_dc_def_n3g2_bc_pl, n=3, words=1, unwind=7, Sem::ST, Enc::Default, Kind::DC, Pres::Plain, cert=false, ANSWER, qs=[[1, 2]], fault=0, codes=[2]);
static_harness!(c07_t_st_dc_def_n2g8_ab_pl, n=2, words=1, unwind=6, Sem::ST, Enc::Default, Kind::DC, Pres::Plain, cert=false, ANSWER, qs=[[0, 1]], fault=0, codes=[8]);
static_harness!(c07_t_st_ds_def_n2g8_ab_pl_cert, n=2, words=1, unwind=6, Sem::ST, Enc::Default, Kind::DS, Pres::Plain, cert=true, CERT, qs=[[0, 1]], fault=0, codes=[8]);
static_harness!(c07_t_st_dc_def_n2g6_aa_pl, n=2, words=1, unwind=6, Sem::ST, Enc::Default, Kind::DC, Pres::Plain, cert=false, ANSWER, qs=[[0, 0]], fault=0, codes=[6]);
static_harness!(c07_t_st_ds_def_n2g6_aa_pl_cert, n=2, words=1, unwind=6, Sem::ST, Enc::Default, Kind::DS, Pres::Plain, cert=true, CERT, qs=[[0, 0]], fault=0, codes=[6]);
static_harness!(c07_t_st_dc_def_n2g14_ab_pl, n=2, words=1, unwind=6, Sem::ST, Enc::Default, Kind::DC, Pres::Plain, cert=false, ANSWER, qs=[[0, 1]], fault=0, codes=[14]);
static_harness!(c07_t_st_ds_def_n2g14_ab_pl_cert, n=2, words=1, unwind=6, Sem::ST, Enc::Default, Kind::DS, Pres::Plain, cert=true, CERT, qs=[[0, 1]], fault=0, codes=[14]);
static_harness!(c07_t_st_dc_def_n2g2_ab_pl, n=2, words=1, unwind=6, Sem::ST, Enc::Default, Kind::DC, Pres::Plain, cert=false, ANSWER, qs=[[0, 1]], fault=0, codes=[2]);
static_harness!(c07_t_st_ds_def_n2g2_ab_pl_cert, n=2, words=1, unwind=6, Sem::ST, Enc::Default, Kind::DS, Pres::Plain, cert=true, CERT, qs=[[0, 1]], fault=0, codes=[2]);
static_harness!(c16_q_st_dc_def_n2g2_a_pl, n=2, words=1, unwind=6, Sem::ST, Enc::Default, Kind::DC, Pres::Plain, cert=false, HEADER, qs=[[0]], fault=0, codes=[2]);
static_harness!(c16_q_st_dc_def_n2g6_b_pl, n=2, words=1, unwind=6, Sem::ST, Enc::Default, Kind::DC, Pres::Plain, cert=false, HEADER, qs=[[1]], fault=0, codes=[6]);
static_harness!(c16_q_st_dc_def_n2g0_ab_pl, n=2, words=1, unwind=6, Sem::ST, Enc::Default, Kind::DC, Pres::Plain, cert=false, HEADER, qs=[[0, 1]], fault=0, codes=[0]);
static_harness!(c16_q_st_dc_def_n2g14_a_pl, n=2, words=1, unwind=6, Sem::ST, Enc::Default, Kind::DC, Pres::Plain, cert=false, HEADER, qs=[[0]], fault=0, codes=[14]);
static_harness!(c16_q_co_dc_aux_n2g6_a_pl_cert, n=2, words=1, unwind=7, Sem::CO, Enc::AuxCo, Kind::DC, Pres::Plain, cert=true, HEADER, qs=[[0]], fault=0, codes=[6]);
static_harness!(c16_q_co_dc_exp_n2g14_ab_pl_cert, n=2, words=1, unwind=6, Sem::CO, Enc::ExpCo, Kind::DC, Pres::Plain, cert=true, HEADER, qs=[[0, 1]], fault=0, codes=[14]);
static_harness!(c16_q_st_ds_def_n2g6_ab_pl_cert, n=2, words=1, unwind=6, Sem::ST, Enc::Default, Kind::DS, Pres::Plain, cert=true, HEADER, qs=[[0, 1]], fault=0, codes=[6]);
static_harness!(c16_q_st_se_def_n2g6_x_pl, n=2, words=1, unwind=6, Sem::ST, Enc::Default, Kind::SE, Pres::Plain, cert=false, HEADER, qs=[[]], fault=0, codes=[6]);
static_harness!(c16_t_st_dc_def_n2g10_b_pl_cert, n=2, words=1, unwind=6, Sem::ST, Enc::Default, Kind::DC, Pres::Plain, cert=true, HEADER, qs=[[1]], fault=0, codes=[10]);
static_harness!(c16_t_st_dc_def_n2g9_a_pl_cert, n=2, words=1, unwind=6, Sem::ST, Enc::Default, Kind::DC, Pres::Plain, cert=true, HEADER, qs=[[0]], fault=0, codes=[9]);
static_harness!(c16_t_st_dc_def_n2g8_ba_pl_cert, n=2, words=1, unwind=6, Sem::ST, Enc::Default, Kind::DC, Pres::Plain, cert=true, HEADER, qs=[[1, 0]], fault=0, codes=[8]);
static_harness!(c16_t_co_dc_hyb_n2g6_b_pl, n=2, words=1, unwind=6, Sem::CO, Enc::Hybrid, Kind::DC, Pres::Plain, cert=false, HEADER, qs=[[1]], fault=0, codes=[6]);
static_harness!(c16_t_st_dc_def_n3g42_c_pl_cert, n=3, words=1, unwind=7, Sem::ST, Enc::Default, Kind::DC, Pres::Plain, cert=true, HEADER, qs=[[2]], fault=0, codes=[42]);
static_harness!(c16_t_st_dc_def_n3g8_ac_pl, n=3, words=1, unwind=7, Sem::ST, Enc::Default, Kind::DC, Pres::Plain, cert=false, HEADER, qs=[[0, 2]], fault=0, codes=[8]);
static_fault_harness!(c17_q_st_dc_def_n2g6_a_pl_cert_f2, n=2, words=1, unwind=6, Sem::ST, Enc::Default, Kind::DC, Pres::Plain, cert=true, FAULT, qs=[[0]], fault=2, codes=[6]);
static_fault_harness!(c17_q_st_dc_def_n2g2_b_pl_cert_f2, n=2, words=1, unwind=6, Sem::ST, Enc::Default, Kind::DC, Pres::Plain, cert=true, FAULT, qs=[[1]], fault=2, codes=[2]);
static_fault_harness!(c17_q_co_dc_aux_n2g2_b_pl_f2, n=2, words=1, unwind=7, Sem::CO, Enc::AuxCo, Kind::DC, Pres::Plain, cert=false, FAULT, qs=[[1]], fault=2, codes=[2]);
static_fault_harness!(c17_t_st_dc_def_n2g0_ab_pl_f3, n=2, words=1, unwind=6, Sem::ST, Enc::Default, Kind::DC, Pres::Plain, cert=false, FAULT, qs=[[0, 1]], fault=3, codes=[0]);
static_fault_harness!(c17_q_st_se_def_n2g6_x_pl_f2, n=2, words=1, unwind=6, Sem::ST, Enc::Default, Kind::SE, Pres::Plain, cert=false, FAULT, qs=[[]], fault=2, codes=[6]);
static_fault_harness!(c17_t_st_ds_def_n2g0_a_pl_cert_f3, n=2, words=1, unwind=6, Sem::ST, Enc::Default, Kind::DS, Pres::Plain, cert=true, FAULT, qs=[[0]], fault=3, codes=[0]);
static_fault_harness!(c17_t_st_dc_def_n2g10_a_pl_f2, n=2, words=1, unwind=6, Sem::ST, Enc::Default, Kind::DC, Pres::Plain, cert=false, FAULT, qs=[[0]], fault=2, codes=[10]);
static_fault_harness!(c17_t_st_dc_def_n2g2_a_pl_f2, n=2, words=1, unwind=6, Sem::ST, Enc::Default, Kind::DC, Pres::Plain, cert=false, FAULT, qs=[[0]], fault=2, codes=[2]);
static_fault_harness!(c17_t_st_dc_def_n2g6_b_pl_f2, n=2, words=1, unwind=6, Sem::ST, Enc::Default, Kind::DC, Pres::Plain, cert=false, FAULT, qs=[[1]], fault=2, codes=[6]);
static_fault_harness!(c17_t_co_dc_exp_n2g14_a_pl_cert_f2, n=2, words=1, unwind=6, Sem::CO, Enc::ExpCo, Kind::DC, Pres::Plain, cert=true, FAULT, qs=[[0]], fault=2, codes=[14]);
static_fault_harness!(c17_q_st_ds_def_n2g6_b_pl_f2, n=2, words=1, unwind=6, Sem::ST, Enc::Default, Kind::DS, Pres::Plain, cert=false, FAULT, qs=[[1]], fault=2, codes=[6]);
static_fault_harness!(c17_t_st_se_def_n2g0_x_pl_f3, n=2, words=1, unwind=6, Sem::ST, Enc::Default, Kind::SE, Pres::Plain, cert=false, FAULT, qs=[[]], fault=3, codes=[0]);
static_harness!(c18_q_st_dc_def_n2g0_ab_pl_cert, n=2, words=1, unwind=6, Sem::ST, Enc::Default, Kind::DC, Pres::Plain, cert=true, CALLS, qs=[[0, 1]], fault=0, codes=[0]);
static_harness!(c18_q_st_dc_def_n2g6_a_pl_cert, n=2, words=1, unwind=6, Sem::ST, Enc::Default, Kind::DC, Pres::Plain, cert=true, CALLS, qs=[[0]], fault=0, codes=[6]);
static_harness!(c18_q_st_dc_def_n2g10_b_pl_cert, n=2, words=1, unwind=6, Sem::ST, Enc::Default, Kind::DC, Pres::Plain, cert=true, CALLS, qs=[[1]], fault=0, codes=[10]);
static_harness!(c18_q_co_dc_aux_n2g6_a_pl_cert, n=2, words=1, unwind=7, Sem::CO, Enc::AuxCo, Kind::DC, Pres::Plain, cert=true, CALLS, qs=[[0]], fault=0, codes=[6]);
static_harness!(c18_q_co_dc_aux_n2g14_ab_pl_cert, n=2, words=1, unwind=7, Sem::CO, Enc::AuxCo, Kind::DC, Pres::Plain, cert=true, CALLS, qs=[[0, 1]], fault=0, codes=[14]);
static_harness!(c18_q_st_dc_def_n2g2_bb_pl, n=2, words=1, unwind=6, Sem::ST, Enc::Default, Kind::DC, Pres::Plain, cert=false, CALLS, qs=[[1, 1]], fault=0, codes=[2]);
static_harness!(c18_q_st_ds_def_n2g2_b_pl, n=2, words=1, unwind=6, Sem::ST, Enc::Default, Kind::DS, Pres::Plain, cert=false, CALLS, qs=[[1]], fault=0, codes=[2]);
static_harness!(c18_t_st_dc_def_n3g6_bc_pl_cert, n=3, words=1, unwind=7, Sem::ST, Enc::Default, Kind::DC, Pres::Plain, cert=true, CALLS, qs=[[1, 2]], fault=0, codes=[6]);
static_harness!(c18_t_st_dc_def_n2g14_bb_pl_cert, n=2, words=1, unwind=6, Sem::ST, Enc::Default, Kind::DC, Pres::Plain, cert=true, CALLS, qs=[[1, 1]], fault=0, codes=[14]);
static_harness!(c18_q_st_se_def_n2g0_x_pl, n=2, words=1, unwind=6, Sem::ST, Enc::Default, Kind::SE, Pres::Plain, cert=false, CALLS, qs=[[]], fault=0, codes=[0]);
static_harness!(c18_t_st_ds_def_n2g0_ab_pl_cert, n=2, words=1, unwind=6, Sem::ST, Enc::Default, Kind::DS, Pres::Plain, cert=true, CALLS, qs=[[0, 1]], fault=0, codes=[0]);
static_harness!(c18_t_co_dc_exp_n2g0_ab_pl, n=2, words=1, unwind=6, Sem::CO, Enc::ExpCo, Kind::DC, Pres::Plain, cert=false, CALLS, qs=[[0, 1]], fault=0, codes=[0]);
static_harness!(c18_t_st_dc_def_n3g0_ac_pl_cert, n=3, words=1, unwind=7, Sem::ST, Enc::Default, Kind::DC, Pres::Plain, cert=true, CALLS, qs=[[0, 2]], fault=0, codes=[0]);
static_harness!(c01_q_pr_se_adm_n2g2_x_pl, n=2, words=2, unwind=9, Sem::PR, Enc::AuxAdm, Kind::SE, Pres::Plain, cert=false, ANSWER, qs=[[]], fault=0, codes=[2]);
static_harness!(c03_q_pr_ds_adm_n2g2_a_pl, n=2, words=2, unwind=9, Sem::PR, Enc::AuxAdm, Kind::DS, Pres::Plain, cert=false, ANSWER, qs=[[0]], fault=0, codes=[2]);
static_harness!(c04_q_pr_ds_adm_n2g2_a_pl_cert, n=2, words=2, unwind=9, Sem::PR, Enc::AuxAdm, Kind::DS, Pres::Plain, cert=true, CERT, qs=[[0]], fault=0, codes=[2]);
static_harness!(c03_q_pr_ds_adm_n2g2_b_pl, n=2, words=2, unwind=9, Sem::PR, Enc::AuxAdm, Kind::DS, Pres::Plain, cert=false, ANSWER, qs=[[1]], fault=0, codes=[2]);
static_harness!(c04_q_pr_ds_adm_n2g2_b_pl_cert, n=2, words=2, unwind=9, Sem::PR, Enc::AuxAdm, Kind::DS, Pres::Plain, cert=true, CERT, qs=[[1]], fault=0, codes=[2]);
static_harness!(c01_t_pr_se_adm_n2g0_x_pl, n=2, words=2, unwind=9, Sem::PR, Enc::AuxAdm, Kind::SE, Pres::Plain, cert=false, ANSWER, qs=[[]], fault=0, codes=[0]);
static_harness!(c03_t_pr_ds_adm_n2g0_a_pl, n=2, words=2, unwind=9, Sem::PR, Enc::AuxAdm, Kind::DS, Pres::Plain, cert=false, ANSWER, qs=[[0]], fault=0, codes=[0]);
static_harness!(c04_t_pr_ds_adm_n2g0_a_pl_cert, n=2, words=2, unwind=9, Sem::PR, Enc::AuxAdm, Kind::DS, Pres::Plain, cert=true, CERT, qs=[[0]], fault=0, codes=[0]);
static_harness!(c03_t_pr_ds_adm_n2g0_b_pl, n=2, words=2, unwind=9, Sem::PR, Enc::AuxAdm, Kind::DS, Pres::Plain, cert=false, ANSWER, qs=[[1]], fault=0, codes=[0]);
static_harness!(c04_t_pr_ds_adm_n2g0_b_pl_cert, n=2, words=2, unwind=9, Sem::PR, Enc::AuxAdm, Kind::DS, Pres::Plain, cert=true, CERT, qs=[[1]], fault=0, codes=[0]);
static_harness!(c01_t_pr_se_adm_n3g34_x_pl, n=3, words=8, unwind=11, Sem::PR, Enc::AuxAdm, Kind::SE, Pres::Plain, cert=false, ANSWER, qs=[[]], fault=0, codes=[34]);
static_harness!(c03_t_pr_ds_adm_n3g34_a_pl, n=3, words=8, unwind=11, Sem::PR, Enc::AuxAdm, Kind::DS, Pres::Plain, cert=false, ANSWER, qs=[[0]], fault=0, codes=[34]);
static_harness!(c03_t_pr_ds_adm_n3g34_b_pl, n=3, words=8, unwind=11, Sem::PR, Enc::AuxAdm, Kind::DS, Pres::Plain, cert=false, ANSWER, qs=[[1]], fault=0, codes=[34]);
static_harness!(c03_t_pr_ds_adm_n3g34_c_pl, n=3, words=8, unwind=11, Sem::PR, Enc::AuxAdm, Kind::DS, Pres::Plain, cert=false, ANSWER, qs=[[2]], fault=0, codes=[34]);
static_harness!(c01_t_pr_se_exp_n2g2_x_pl, n=2, words=1, unwind=7, Sem::PR, Enc::ExpCo, Kind::SE, Pres::Plain, cert=false, ANSWER, qs=[[]], fault=0, codes=[2]);
static_harness!(c03_t_pr_ds_exp_n2g2_a_pl, n=2, words=1, unwind=7, Sem::PR, Enc::ExpCo, Kind::DS, Pres::Plain, cert=false, ANSWER, qs=[[0]], fault=0, codes=[2]);
static_harness!(c03_t_pr_ds_exp_n2g2_b_pl, n=2, words=1, unwind=7, Sem::PR, Enc::ExpCo, Kind::DS, Pres::Plain, cert=false, ANSWER, qs=[[1]], fault=0, codes=[2]);
static_harness!(c01_t_pr_se_hyb_n2g2_x_pl, n=2, words=1, unwind=7, Sem::PR, Enc::Hybrid, Kind::SE, Pres::Plain, cert=false, ANSWER, qs=[[]], fault=0, codes=[2]);
static_harness!(c03_t_pr_ds_hyb_n2g2_a_pl, n=2, words=1, unwind=7, Sem::PR, Enc::Hybrid, Kind::DS, Pres::Plain, cert=false, ANSWER, qs=[[0]], fault=0, codes=[2]);
static_harness!(c03_t_pr_ds_hyb_n2g2_b_pl, n=2, words=1, unwind=7, Sem::PR, Enc::Hybrid, Kind::DS, Pres::Plain, cert=false, ANSWER, qs=[[1]], fault=0, codes=[2]);
static_harness!(c01_q_sst_se_aux_n2g2_x_pl, n=2, words=4, unwind=10, Sem::SST, Enc::AuxCo, Kind::SE, Pres::Plain, cert=false, ANSWER, qs=[[]], fault=0, codes=[2]);
static_harness!(c03_q_sst_ds_aux_n2g2_a_pl, n=2, words=4, unwind=10, Sem::SST, Enc::AuxCo, Kind::DS, Pres::Plain, cert=false, ANSWER, qs=[[0]], fault=0, codes=[2]);
static_harness!(c04_q_sst_ds_aux_n2g2_a_pl_cert, n=2, words=4, unwind=10, Sem::SST, Enc::AuxCo, Kind::DS, Pres::Plain, cert=true, CERT, qs=[[0]], fault=0, codes=[2]);
static_harness!(c02_q_sst_dc_aux_n2g2_a_pl, n=2, words=4, unwind=10, Sem::SST, Enc::AuxCo, Kind::DC, Pres::Plain, cert=false, ANSWER, qs=[[0]], fault=0, codes=[2]);
static_harness!(c04_q_sst_dc_aux_n2g2_a_pl_cert, n=2, words=4, unwind=10, Sem::SST, Enc::AuxCo, Kind::DC, Pres::Plain, cert=true, CERT, qs=[[0]], fault=0, codes=[2]);
static_harness!(c03_q_sst_ds_aux_n2g2_b_pl, n=2, words=4, unwind=10, Sem::SST, Enc::AuxCo, Kind::DS, Pres::Plain, cert=false, ANSWER, qs=[[1]], fault=0, codes=[2]);
static_harness!(c04_q_sst_ds_aux_n2g2_b_pl_cert, n=2, words=4, unwind=10, Sem::SST, Enc::AuxCo, Kind::DS, Pres::Plain, cert=true, CERT, qs=[[1]], fault=0, codes=[2]);
static_harness!(c02_q_sst_dc_aux_n2g2_b_pl, n=2, words=4, unwind=10, Sem::SST, Enc::AuxCo, Kind::DC, Pres::Plain, cert=false, ANSWER, qs=[[1]], fault=0, codes=[2]);
static_harness!(c04_q_sst_dc_aux_n2g2_b_pl_cert, n=2, words=4, unwind=10, Sem::SST, Enc::AuxCo, Kind::DC, Pres::Plain, cert=true, CERT, qs=[[1]], fault=0, codes=[2]);
static_harness!(c01_t_sst_se_aux_n2g0_x_pl, n=2, words=4, unwind=10, Sem::SST, Enc::AuxCo, Kind::SE, Pres::Plain, cert=false, ANSWER, qs=[[]], fault=0, codes=[0]);
static_harness!(c03_t_sst_ds_aux_n2g0_a_pl, n=2, words=4, unwind=10, Sem::SST, Enc::AuxCo, Kind::DS, Pres::Plain, cert=false, ANSWER, qs=[[0]], fault=0, codes=[0]);
static_harness!(c04_t_sst_ds_aux_n2g0_a_pl_cert, n=2, words=4, unwind=10, Sem::SST, Enc::AuxCo, Kind::DS, Pres::Plain, cert=true, CERT, qs=[[0]], fault=0, codes=[0]);
static_harness!(c02_t_sst_dc_aux_n2g0_a_pl, n=2, words=4, unwind=10, Sem::SST, Enc::AuxCo, Kind::DC, Pres::Plain, cert=false, ANSWER, qs=[[0]], fault=0, codes=[0]);
static_harness!(c04_t_sst_dc_aux_n2g0_a_pl_cert, n=2, words=4, unwind=10, Sem::SST, Enc::AuxCo, Kind::DC, Pres::Plain, cert=true, CERT, qs=[[0]], fault=0, codes=[0]);
static_harness!(c03_t_sst_ds_aux_n2g0_b_pl, n=2, words=4, unwind=10, Sem::SST, Enc::AuxCo, Kind::DS, Pres::Plain, cert=false, ANSWER, qs=[[1]], fault=0, codes=[0]);
static_harness!(c04_t_sst_ds_aux_n2g0_b_pl_cert, n=2, words=4, unwind=10, Sem::SST, Enc::AuxCo, Kind::DS, Pres::Plain, cert=true, CERT, qs=[[1]], fault=0, codes=[0]);
static_harness!(c02_t_sst_dc_aux_n2g0_b_pl, n=2, words=4, unwind=10, Sem::SST, Enc::AuxCo, Kind::DC, Pres::Plain, cert=false, ANSWER, qs=[[1]], fault=0, codes=[0]);
static_harness!(c04_t_sst_dc_aux_n2g0_b_pl_cert, n=2, words=4, unwind=10, Sem::SST, Enc::AuxCo, Kind::DC, Pres::Plain, cert=true, CERT, qs=[[1]], fault=0, codes=[0]);
static_harness!(c01_t_sst_se_aux_n3g34_x_pl, n=3, words=32, unwind=13, Sem::SST, Enc::AuxCo, Kind::SE, Pres::Plain, cert=false, ANSWER, qs=[[]], fault=0, codes=[34]);
static_harness!(c03_t_sst_ds_aux_n3g34_a_pl, n=3, words=32, unwind=13, Sem::SST, Enc::AuxCo, Kind::DS, Pres::Plain, cert=false, ANSWER, qs=[[0]], fault=0, codes=[34]);
static_harness!(c02_t_sst_dc_aux_n3g34_a_pl, n=3, words=32, unwind=13, Sem::SST, Enc::AuxCo, Kind::DC, Pres::Plain, cert=false, ANSWER, qs=[[0]], fault=0, codes=[34]);
static_harness!(c03_t_sst_ds_aux_n3g34_b_pl, n=3, words=32, unwind=13, Sem::SST, Enc::AuxCo, Kind::DS, Pres::Plain, cert=false, ANSWER, qs=[[1]], fault=0, codes=[34]);
static_harness!(c02_t_sst_dc_aux_n3g34_b_pl, n=3, words=32, unwind=13, Sem::SST, Enc::AuxCo, Kind::DC, Pres::Plain, cert=false, ANSWER, qs=[[1]], fault=0, codes=[34]);
static_harness!(c03_t_sst_ds_aux_n3g34_c_pl, n=3, words=32, unwind=13, Sem::SST, Enc::AuxCo, Kind::DS, Pres::Plain, cert=false, ANSWER, qs=[[2]], fault=0, codes=[34]);
static_harness!(c02_t_sst_dc_aux_n3g34_c_pl, n=3, words=32, unwind=13, Sem::SST, Enc::AuxCo, Kind::DC, Pres::Plain, cert=false, ANSWER, qs=[[2]], fault=0, codes=[34]);
static_harness!(c01_t_sst_se_exp_n2g2_x_pl, n=2, words=1, unwind=8, Sem::SST, Enc::ExpCo, Kind::SE, Pres::Plain, cert=false, ANSWER, qs=[[]], fault=0, codes=[2]);
static_harness!(c03_t_sst_ds_exp_n2g2_a_pl, n=2, words=1, unwind=8, Sem::SST, Enc::ExpCo, Kind::DS, Pres::Plain, cert=false, ANSWER, qs=[[0]], fault=0, codes=[2]);
static_harness!(c02_t_sst_dc_exp_n2g2_a_pl, n=2, words=1, unwind=8, Sem::SST, Enc::ExpCo, Kind::DC, Pres::Plain, cert=false, ANSWER, qs=[[0]], fault=0, codes=[2]);
static_harness!(c03_t_sst_ds_exp_n2g2_b_pl, n=2, words=1, unwind=8, Sem::SST, Enc::ExpCo, Kind::DS, Pres::Plain, cert=false, ANSWER, qs=[[1]], fault=0, codes=[2]);
static_harness!(c02_t_sst_dc_exp_n2g2_b_pl, n=2, words=1, unwind=8, Sem::SST, Enc::ExpCo, Kind::DC, Pres::Plain, cert=false, ANSWER, qs=[[1]], fault=0, codes=[2]);
static_harness!(c01_q_stg_se_acf_n2g2_x_pl, n=2, words=4, unwind=10, Sem::STG, Enc::AuxCf, Kind::SE, Pres::Plain, cert=false, ANSWER, qs=[[]], fault=0, codes=[2]);
static_harness!(c03_q_stg_ds_acf_n2g2_a_pl, n=2, words=4, unwind=10, Sem::STG, Enc::AuxCf, Kind::DS, Pres::Plain, cert=false, ANSWER, qs=[[0]], fault=0, codes=[2]);
static_harness!(c04_q_stg_ds_acf_n2g2_a_pl_cert, n=2, words=4, unwind=10, Sem::STG, Enc::AuxCf, Kind::DS, Pres::Plain, cert=true, CERT, qs=[[0]], fault=0, codes=[2]);
static_harness!(c02_q_stg_dc_acf_n2g2_a_pl, n=2, words=4, unwind=10, Sem::STG, Enc::AuxCf, Kind::DC, Pres::Plain, cert=false, ANSWER, qs=[[0]], fault=0, codes=[2]);
static_harness!(c04_q_stg_dc_acf_n2g2_a_pl_cert, n=2, words=4, unwind=10, Sem::STG, Enc::AuxCf, Kind::DC, Pres::Plain, cert=true, CERT, qs=[[0]], fault=0, codes=[2]);
static_harness!(c03_q_stg_ds_acf_n2g2_b_pl, n=2, words=4, unwind=10, Sem::STG, Enc::AuxCf, Kind::DS, Pres::Plain, cert=false, ANSWER, qs=[[1]], fault=0, codes=[2]);
static_harness!(c04_q_stg_ds_acf_n2g2_b_pl_cert, n=2, words=4, unwind=10, Sem::STG, Enc::AuxCf, Kind::DS, Pres::Plain, cert=true, CERT, qs=[[1]], fault=0, codes=[2]);
static_harness!(c02_q_stg_dc_acf_n2g2_b_pl, n=2, words=4, unwind=10, Sem::STG, Enc::AuxCf, Kind::DC, Pres::Plain, cert=false, ANSWER, qs=[[1]], fault=0, codes=[2]);
static_harness!(c04_q_stg_dc_acf_n2g2_b_pl_cert, n=2, words=4, unwind=10, Sem::STG, Enc::AuxCf, Kind::DC, Pres::Plain, cert=true, CERT, qs=[[1]], fault=0, codes=[2]);
static_harness!(c01_t_stg_se_acf_n2g0_x_pl, n=2, words=4, unwind=10, Sem::STG, Enc::AuxCf, Kind::SE, Pres::Plain, cert=false, ANSWER, qs=[[]], fault=0, codes=[0]);
static_harness!(c03_t_stg_ds_acf_n2g0_a_pl, n=2, words=4, unwind=10, Sem::STG, Enc::AuxCf, Kind::DS, Pres::Plain, cert=false, ANSWER, qs=[[0]], fault=0, codes=[0]);
static_harness!(c04_t_stg_ds_acf_n2g0_a_pl_cert, n=2, words=4, unwind=10, Sem::STG, Enc::AuxCf, Kind::DS, Pres::Plain, cert=true, CERT, qs=[[0]], fault=0, codes=[0]);
static_harness!(c02_t_stg_dc_acf_n2g0_a_pl, n=2, words=4, unwind=10, Sem::STG, Enc::AuxCf, Kind::DC, Pres::Plain, cert=false, ANSWER, qs=[[0]], fault=0, codes=[0]);
static_harness!(c04_t_stg_dc_acf_n2g0_a_pl_cert, n=2, words=4, unwind=10, Sem::STG, Enc::AuxCf, Kind::DC, Pres::Plain, cert=true, CERT, qs=[[0]], fault=0, codes=[0]);
static_harness!(c03_t_stg_ds_acf_n2g0_b_pl, n=2, words=4, unwind=10, Sem::STG, Enc::AuxCf, Kind::DS, Pres::Plain, cert=false, ANSWER, qs=[[1]], fault=0, codes=[0]);
static_harness!(c04_t_stg_ds_acf_n2g0_b_pl_cert, n=2, words=4, unwind=10, Sem::STG, Enc::AuxCf, Kind::DS, Pres::Plain, cert=true, CERT, qs=[[1]], fault=0, codes=[0]);
static_harness!(c02_t_stg_dc_acf_n2g0_b_pl, n=2, words=4, unwind=10, Sem::STG, Enc::AuxCf, Kind::DC, Pres::Plain, cert=false, ANSWER, qs=[[1]], fault=0, codes=[0]);
static_harness!(c04_t_stg_dc_acf_n2g0_b_pl_cert, n=2, words=4, unwind=10, Sem::STG, Enc::AuxCf, Kind::DC, Pres::Plain, cert=true, CERT, qs=[[1]], fault=0, codes=[0]);
static_harness!(c01_t_stg_se_acf_n3g34_x_pl, n=3, words=32, unwind=13, Sem::STG, Enc::AuxCf, Kind::SE, Pres::Plain, cert=false, ANSWER, qs=[[]], fault=0, codes=[34]);
static_harness!(c03_t_stg_ds_acf_n3g34_a_pl, n=3, words=32, unwind=13, Sem::STG, Enc::AuxCf, Kind::DS, Pres::Plain, cert=false, ANSWER, qs=[[0]], fault=0, codes=[34]);
static_harness!(c02_t_stg_dc_acf_n3g34_a_pl, n=3, words=32, unwind=13, Sem::STG, Enc::AuxCf, Kind::DC, Pres::Plain, cert=false, ANSWER, qs=[[0]], fault=0, codes=[34]);
static_harness!(c03_t_stg_ds_acf_n3g34_b_pl, n=3, words=32, unwind=13, Sem::STG, Enc::AuxCf, Kind::DS, Pres::Plain, cert=false, ANSWER, qs=[[1]], fault=0, codes=[34]);
static_harness!(c02_t_stg_dc_acf_n3g34_b_pl, n=3, words=32, unwind=13, Sem::STG, Enc::AuxCf, Kind::DC, Pres::Plain, cert=false, ANSWER, qs=[[1]], fault=0, codes=[34]);
static_harness!(c03_t_stg_ds_acf_n3g34_c_pl, n=3, words=32, unwind=13, Sem::STG, Enc::AuxCf, Kind::DS, Pres::Plain, cert=false, ANSWER, qs=[[2]], fault=0, codes=[34]);
static_harness!(c02_t_stg_dc_acf_n3g34_c_pl, n=3, words=32, unwind=13, Sem::STG, Enc::AuxCf, Kind::DC, Pres::Plain, cert=false, ANSWER, qs=[[2]], fault=0, codes=[34]);
static_harness!(c01_t_stg_se_ecf_n2g2_x_pl, n=2, words=1, unwind=8, Sem::STG, Enc::ExpCf, Kind::SE, Pres::Plain, cert=false, ANSWER, qs=[[]], fault=0, codes=[2]);
static_harness!(c03_t_stg_ds_ecf_n2g2_a_pl, n=2, words=1, unwind=8, Sem::STG, Enc::ExpCf, Kind::DS, Pres::Plain, cert=false, ANSWER, qs=[[0]], fault=0, codes=[2]);
static_harness!(c02_t_stg_dc_ecf_n2g2_a_pl, n=2, words=1, unwind=8, Sem::STG, Enc::ExpCf, Kind::DC, Pres::Plain, cert=false, ANSWER, qs=[[0]], fault=0, codes=[2]);
static_harness!(c03_t_stg_ds_ecf_n2g2_b_pl, n=2, words=1, unwind=8, Sem::STG, Enc::ExpCf, Kind::DS, Pres::Plain, cert=false, ANSWER, qs=[[1]], fault=0, codes=[2]);
static_harness!(c02_t_stg_dc_ecf_n2g2_b_pl, n=2, words=1, unwind=8, Sem::STG, Enc::ExpCf, Kind::DC, Pres::Plain, cert=false, ANSWER, qs=[[1]], fault=0, codes=[2]);
static_harness!(c01_q_id_se_aux_n2g2_x_pl, n=2, words=2, unwind=9, Sem::ID, Enc::AuxCo, Kind::SE, Pres::Plain, cert=false, ANSWER, qs=[[]], fault=0, codes=[2]);
static_harness!(c03_q_id_ds_aux_n2g2_a_pl, n=2, words=2, unwind=9, Sem::ID, Enc::AuxCo, Kind::DS, Pres::Plain, cert=false, ANSWER, qs=[[0]], fault=0, codes=[2]);
static_harness!(c04_q_id_ds_aux_n2g2_a_pl_cert, n=2, words=2, unwind=9, Sem::ID, Enc::AuxCo, Kind::DS, Pres::Plain, cert=true, CERT, qs=[[0]], fault=0, codes=[2]);
static_harness!(c02_q_id_dc_aux_n2g2_a_pl, n=2, words=2, unwind=9, Sem::ID, Enc::AuxCo, Kind::DC, Pres::Plain, cert=false, ANSWER, qs=[[0]], fault=0, codes=[2]);
static_harness!(c04_q_id_dc_aux_n2g2_a_pl_cert, n=2, words=2, unwind=9, Sem::ID, Enc::AuxCo, Kind::DC, Pres::Plain, cert=true, CERT, qs=[[0]], fault=0, codes=[2]);
static_harness!(c03_q_id_ds_aux_n2g2_b_pl, n=2, words=2, unwind=9, Sem::ID, Enc::AuxCo, Kind::DS, Pres::Plain, cert=false, ANSWER, qs=[[1]], fault=0, codes=[2]);
static_harness!(c04_q_id_ds_aux_n2g2_b_pl_cert, n=2, words=2, unwind=9, Sem::ID, Enc::AuxCo, Kind::DS, Pres::Plain, cert=true, CERT, qs=[[1]], fault=0, codes=[2]);
static_harness!(c02_q_id_dc_aux_n2g2_b_pl, n=2, words=2, unwind=9, Sem::ID, Enc::AuxCo, Kind::DC, Pres::Plain, cert=false, ANSWER, qs=[[1]], fault=0, codes=[2]);
static_harness!(c04_q_id_dc_aux_n2g2_b_pl_cert, n=2, words=2, unwind=9, Sem::ID, Enc::AuxCo, Kind::DC, Pres::Plain, cert=true, CERT, qs=[[1]], fault=0, codes=[2]);
static_harness!(c01_t_id_se_aux_n2g0_x_pl, n=2, words=2, unwind=9, Sem::ID, Enc::AuxCo, Kind::SE, Pres::Plain, cert=false, ANSWER, qs=[[]], fault=0, codes=[0]);
static_harness!(c03_t_id_ds_aux_n2g0_a_pl, n=2, words=2, unwind=9, Sem::ID, Enc::AuxCo, Kind::DS, Pres::Plain, cert=false, ANSWER, qs=[[0]], fault=0, codes=[0]);
static_harness!(c04_t_id_ds_aux_n2g0_a_pl_cert, n=2, words=2, unwind=9, Sem::ID, Enc::AuxCo, Kind::DS, Pres::Plain, cert=true, CERT, qs=[[0]], fault=0, codes=[0]);
static_harness!(c02_t_id_dc_aux_n2g0_a_pl, n=2, words=2, unwind=9, Sem::ID, Enc::AuxCo, Kind::DC, Pres::Plain, cert=false, ANSWER, qs=[[0]], fault=0, codes=[0]);
static_harness!(c04_t_id_dc_aux_n2g0_a_pl_cert, n=2, words=2, unwind=9, Sem::ID, Enc::AuxCo, Kind::DC, Pres::Plain, cert=true, CERT, qs=[[0]], fault=0, codes=[0]);
static_harness!(c03_t_id_ds_aux_n2g0_b_pl, n=2, words=2, unwind=9, Sem::ID, Enc::AuxCo, Kind::DS, Pres::Plain, cert=false, ANSWER, qs=[[1]], fault=0, codes=[0]);
static_harness!(c04_t_id_ds_aux_n2g0_b_pl_cert, n=2, words=2, unwind=9, Sem::ID, Enc::AuxCo, Kind::DS, Pres::Plain, cert=true, CERT, qs=[[1]], fault=0, codes=[0]);
static_harness!(c02_t_id_dc_aux_n2g0_b_pl, n=2, words=2, unwind=9, Sem::ID, Enc::AuxCo, Kind::DC, Pres::Plain, cert=false, ANSWER, qs=[[1]], fault=0, codes=[0]);
static_harness!(c04_t_id_dc_aux_n2g0_b_pl_cert, n=2, words=2, unwind=9, Sem::ID, Enc::AuxCo, Kind::DC, Pres::Plain, cert=true, CERT, qs=[[1]], fault=0, codes=[0]);
static_harness!(c01_t_id_se_aux_n3g34_x_pl, n=3, words=8, unwind=11, Sem::ID, Enc::AuxCo, Kind::SE, Pres::Plain, cert=false, ANSWER, qs=[[]], fault=0, codes=[34]);
static_harness!(c03_t_id_ds_aux_n3g34_a_pl, n=3, words=8, unwind=11, Sem::ID, Enc::AuxCo, Kind::DS, Pres::Plain, cert=false, ANSWER, qs=[[0]], fault=0, codes=[34]);
static_harness!(c02_t_id_dc_aux_n3g34_a_pl, n=3, words=8, unwind=11, Sem::ID, Enc::AuxCo, Kind::DC, Pres::Plain, cert=false, ANSWER, qs=[[0]], fault=0, codes=[34]);
static_harness!(c03_t_id_ds_aux_n3g34_b_pl, n=3, words=8, unwind=11, Sem::ID, Enc::AuxCo, Kind::DS, Pres::Plain, cert=false, ANSWER, qs=[[1]], fault=0, codes=[34]);
static_harness!(c02_t_id_dc_aux_n3g34_b_pl, n=3, words=8, unwind=11, Sem::ID, Enc::AuxCo, Kind::DC, Pres::Plain, cert=false, ANSWER, qs=[[1]], fault=0, codes=[34]);
static_harness!(c03_t_id_ds_aux_n3g34_c_pl, n=3, words=8, unwind=11, Sem::ID, Enc::AuxCo, Kind::DS, Pres::Plain, cert=false, ANSWER, qs=[[2]], fault=0, codes=[34]);
static_harness!(c02_t_id_dc_aux_n3g34_c_pl, n=3, words=8, unwind=11, Sem::ID, Enc::AuxCo, Kind::DC, Pres::Plain, cert=false, ANSWER, qs=[[2]], fault=0, codes=[34]);
static_harness!(c01_t_id_se_exp_n2g2_x_pl, n=2, words=1, unwind=7, Sem::ID, Enc::ExpCo, Kind::SE, Pres::Plain, cert=false, ANSWER, qs=[[]], fault=0, codes=[2]);
static_harness!(c03_t_id_ds_exp_n2g2_a_pl, n=2, words=1, unwind=7, Sem::ID, Enc::ExpCo, Kind::DS, Pres::Plain, cert=false, ANSWER, qs=[[0]], fault=0, codes=[2]);
static_harness!(c02_t_id_dc_exp_n2g2_a_pl, n=2, words=1, unwind=7, Sem::ID, Enc::ExpCo, Kind::DC, Pres::Plain, cert=false, ANSWER, qs=[[0]], fault=0, codes=[2]);
static_harness!(c03_t_id_ds_exp_n2g2_b_pl, n=2, words=1, unwind=7, Sem::ID, Enc::ExpCo, Kind::DS, Pres::Plain, cert=false, ANSWER, qs=[[1]], fault=0, codes=[2]);
static_harness!(c02_t_id_dc_exp_n2g2_b_pl, n=2, words=1, unwind=7, Sem::ID, Enc::ExpCo, Kind::DC, Pres::Plain, cert=false, ANSWER, qs=[[1]], fault=0, codes=[2]);
static_fault_harness!(c17_q_pr_se_adm_n2g2_x_pl_f1s, n=2, words=2, unwind=9, Sem::PR, Enc::AuxAdm, Kind::SE, Pres::Plain, cert=false, FAULT, qs=[[]], fault=101, codes=[2]);
static_fault_harness!(c17_t_pr_ds_adm_n2g2_b_pl_cert_f1s, n=2, words=2, unwind=9, Sem::PR, Enc::AuxAdm, Kind::DS, Pres::Plain, cert=true, FAULT, qs=[[1]], fault=101, codes=[2]);
static_fault_harness!(c17_t_sst_se_aux_n2g2_x_pl_f1s, n=2, words=4, unwind=10, Sem::SST, Enc::AuxCo, Kind::SE, Pres::Plain, cert=false, FAULT, qs=[[]], fault=101, codes=[2]);
static_fault_harness!(c17_t_sst_ds_aux_n2g2_b_pl_cert_f1s, n=2, words=4, unwind=10, Sem::SST, Enc::AuxCo, Kind::DS, Pres::Plain, cert=true, FAULT, qs=[[1]], fault=101, codes=[2]);
static_fault_harness!(c17_t_stg_se_ecf_n2g2_x_pl_f1s, n=2, words=1, unwind=8, Sem::STG, Enc::ExpCf, Kind::SE, Pres::Plain, cert=false, FAULT, qs=[[]], fault=101, codes=[2]);
static_fault_harness!(c17_t_stg_ds_ecf_n2g2_b_pl_cert_f1s, n=2, words=1, unwind=8, Sem::STG, Enc::ExpCf, Kind::DS, Pres::Plain, cert=true, FAULT, qs=[[1]], fault=101, codes=[2]);
static_fault_harness!(c17_t_id_se_aux_n2g2_x_pl_f1s, n=2, words=2, unwind=9, Sem::ID, Enc::AuxCo, Kind::SE, Pres::Plain, cert=false, FAULT, qs=[[]], fault=101, codes=[2]);
static_fault_harness!(c17_t_id_ds_aux_n2g2_b_pl_cert_f1s, n=2, words=2, unwind=9, Sem::ID, Enc::AuxCo, Kind::DS, Pres::Plain, cert=true, FAULT, qs=[[1]], fault=101, codes=[2]);
