#!/bin/bash
# Builds the framework's native helpers from files on disk only (offline) and warms the Kani build cache.
set -e
cd "$(dirname "$0")"
export CARGO_NET_OFFLINE=true
(cd tv && cargo build --offline --quiet)
(cd native && cargo build --offline --release --quiet)
mkdir -p .work evidence replays
# warm the Kani target directory (dependencies of the harness crate); failures here are not fatal, checks rebuild anyway
(cd kani && PATH="$PWD/../lib/shim:$PATH" timeout 900 cargo kani -Z stubbing -Z unstable-options --only-codegen --target-dir ../.work/kani-target >/dev/null 2>&1 || true)
echo "setup done"
