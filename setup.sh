#!/bin/bash
# Builds the framework's native helpers from files on disk only (offline) and warms the Kani build cache.
set -e
cd "$(dirname "$0")"
export CARGO_NET_OFFLINE=true
(cd tv && cargo build --offline --quiet)
python3-vt -c "import sys; sys.path.insert(0, 'lib'); import kani_replay; kani_replay.write_registry()"
(cd native && cargo build --offline --release --quiet)
mkdir -p .work evidence replays
# warm the Kani target directory (dependencies of the harness crate); failures here are not fatal, checks rebuild anyway
(cd kani && timeout 1200 cargo kani -Z stubbing -Z unstable-options --only-codegen --harness h_layout::layout_q_stable --exact --target-dir ../.work/kani-target >/dev/null 2>&1 || true)
echo "setup done"
