"""C14 — written answers and frameworks read back to the same objects (Kani on the real writers, formatting unstubbed)."""
import kani_check

FUNCS = ["io::Iccma23Writer::{write_single_extension,write_acceptance_status,write_no_extension}",
         "io::AspartixWriter::{write_single_extension,write_acceptance_status,write_no_extension,write_framework}",
         "io::specs::{write_no_extension,write_acceptance_status}", "<utils::Label<T> as Display>::fmt", "core::fmt (real, not stubbed)"]
BOUNDS = ("ICCMA'23 extension: symbolic length 0..2 and symbolic usize labels < 1000 in any order -> the bytes equal 'w' + ' label'* + '\\n' and a reference "
          "reader maps them back to the same labels; Aspartix extension: length 0..2, labels chosen symbolically among {a, b1, _x} -> bytes equal "
          "'[' + comma-separated labels + ']\\n'; both writers: status symbolic -> exactly 'YES\\n' / 'NO\\n', 'no extension' -> 'NO\\n'; write_framework: the "
          "framework a,b,c with a->b, b->c, c->a, b->b after the removal of one symbolically chosen argument -> exactly the live arguments in creation "
          "order and the live attacks in insertion order. OUTSIDE: larger extensions / labels, reading the Aspartix text back through the regex-based "
          "AspartixReader (cannot be compiled to CBMC; its line patterns are covered by C13), other update histories before write_framework.")


def run(tier, seed):
    return kani_check.run("C14", ["c14_"], tier, seed, dict(functions=FUNCS, bounds=BOUNDS,
                          assumptions=["reference printer / reader in kani/src/h_writers.rs", "only Backtrace::capture and anyhow::Error's drop are stubbed here; formatting is real"]),
                          jobs=5, timeout_s=1500 if tier == "quick" else 3600)


def replay(path):
    import kani_replay
    return kani_replay.replay_file(path)
