"""C10 — CNF encodings characterise exactly the intended argument sets.

(a) SMT translation validation of the CNF emitted by the real encoders (tv/tv_cnf.py, z3 decides over all assignments);
(b) Kani on the variable-layout arithmetic for symbolic n (kani/src/h_layout.rs).
"""
import json
import os
import sys

import common
from common import Result, VERIF

sys.path.insert(0, os.path.join(VERIF, "tv"))


def run(tier, seed):
    res = Result("C10", tier, seed, "translation_validation")
    ok, log = common.build_native(os.path.join(VERIF, "tv"))
    if not ok:
        res.inconclusive.append("cnfdump does not build against /repo: " + log[-800:])
        res.coverage = {"explanation": "build failure", "programs": 0, "disagreements_checked": 0, "samples": []}
        return res
    import tv_cnf
    r = tv_cnf.run(tier, seed)
    known = common.load_known_findings()
    res_total_confirmed = len(r["confirmed"])
    for v in r["confirmed"][:5]:  # at most five replay files; the total is in the evidence
        name = "%s_%s" % (v["kind"], v["id"].replace("/", "_"))
        path = common.write_replay("C10", name, v)
        res.violations.append(("%s: %s [%s]" % (v["kind"], v["id"], v["replay"]), path))
    for v in r["unconfirmed"]:
        res.inconclusive.append("counterexample did not replay: %s %s (%s)" % (v["kind"], v["id"], v.get("replay")))
    res.inconclusive += r["inconclusive"]
    kani_part = None
    try:
        import kani_run
        kani_part = kani_run.run_group(res, "C10", ["layout_"], tier, jobs=7, timeout_s=900)
        for n, d in kani_part.get("candidates", []):
            import kani_replay
            ok2, why, path = kani_replay.replay("C10", n, d)
            if ok2:
                res.violations.append(("%s: %s (%s)" % (n, d, why), path))
            else:
                res.inconclusive.append("%s: counterexample of '%s' did not replay natively: %s" % (n, d, why))
    except ImportError:
        pass
    res.coverage = {
        "programs": r["programs"],
        "disagreements_checked": len(r["confirmed"]) + len(r["unconfirmed"]),
        "samples": r["samples"][:3],
        "frameworks": r["frameworks"],
        "violating_cnfs": res_total_confirmed,
        "smt_queries_discharged": r["queries"],
        "solver_s": r["solver_s"],
        "functions_encoded": [
            "encodings::aux_var_constraints_encoder::{new_for_conflict_freeness,new_for_admissibility,new_for_complete_semantics}",
            "encodings::exp_constraints_encoder::{new_for_conflict_freeness,new_for_complete_semantics}",
            "encodings::HybridCompleteConstraintsEncoder", "encodings::DefaultStableConstraintsEncoder",
            "ConstraintsEncoder::{encode_constraints,encode_constraints_and_range,arg_to_lit,first_range_var,assignment_to_extension}",
            "utils::ConnectedComponentsComputer::iter_connected_components (component extraction feeding the encoders)",
        ],
        "bounds": "frameworks: every AF with <=3 arguments (531) + each AF with <=2 arguments with every attack declared twice "
                  "+ seeded random AFs with 4..8 arguments (%s) + components extracted by the real component computer "
                  "+ 13 shapes around the hybrid threshold (defender-set product 16,31,32,33; up to 35 arguments; distinct "
                  "defenders and duplicated attack declarations)%s; per CNF: ALL assignments of its variables are decided by z3 "
                  "(sound, complete [exists-forall], range-sound, range-complete [exists-forall]) — outside: larger frameworks, "
                  "sparse ids (the encoders are only ever fed compact ids)" % (
                      "150 quick" if tier == "quick" else "2000 thorough",
                      "" if tier == "quick" else " + one third of the 65536 AFs with 4 arguments"),
        "exhaustive": False,
        "kani": kani_part,
    }
    res.assumptions = [
        "z3 4.x (python bindings of the tooling venv) decides the propositional / exists-forall queries",
        "assignment_to_extension acts variable-wise (checked: one-hot, all-true, all-false, all-None assignments replayed through the real function)",
        "the recording SatSolver used by cnfdump reports n_vars like BufferedSatSolver (max variable seen, raised by reserve)",
        "the framework dimension is enumerated/sampled (reported as programs); only the assignment dimension is decided symbolically",
    ]
    return res


def replay(path):
    ok, log = common.build_native(os.path.join(VERIF, "tv"))
    import tv_cnf
    v = json.load(open(path))
    good, why = tv_cnf.replay(v)
    print(("REPRODUCED: " if good else "NOT REPRODUCED: ") + why)
    return 1 if good else 0
