"""C12 — the framework store is a faithful set model (symbolic operation sequences)."""
import kani_check

FUNCS = ["aa::AAFramework::{new_argument,remove_argument,new_attack,remove_attack,n_arguments,n_attacks,max_argument_id,iter_attacks,iter_attacks_from,iter_attacks_to,argument_set}",
         "aa::ArgumentSet::{get_argument,len,iter,has_argument_with_id}", "utils::LabelSet (HashMap replaced by VecMap under cfg(kani))"]
BOUNDS = ("K symbolic operations (kind in {new_argument, remove_argument, new_attack, remove_attack}, both operands symbolic over the labels {0,1}, so "
          "self-attacks, re-insertion after removal, repeated removal and unknown operands are included) on an empty AAFramework<usize>, K = 1, 2 "
          "(quick) and 3 (thorough, if CBMC finishes); the Result of every operation is compared with the set model when it is applied and every "
          "observable (counts, max id, the three attack iterators, argument lookup, ids, has_argument_with_id) at the end of the history. "
          "OUTSIDE: longer histories, more than two labels, String labels.")


def run(tier, seed):
    return kani_check.run("C12", ["c12_"], tier, seed, dict(functions=FUNCS, bounds=BOUNDS,
                          assumptions=["set model of kani/src/store.rs; natively cross-checked on all 256 / 4096 histories of length 2 / 3"]),
                          jobs=4)


def replay(path):
    import kani_replay
    return kani_replay.replay_file(path)
