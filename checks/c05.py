"""C05 (the part within reach of the technique): problem-string parsing."""
import kani_check


def run(tier, seed):
    return kani_check.run("C05", ["c05_"], tier, seed, dict(
        functions=["aa::Query::read_problem_string", "<aa::Query as TryFrom<&str>>::try_from", "<aa::Semantics as TryFrom<&str>>::try_from"],
        bounds="every ASCII string of length <= 6 bytes (symbolic bytes < 128, symbolic length): accepted exactly when it is one of the "
               "21 problem strings up to letter case, with the right (query, semantics) pair; never panics. Outside the claim: longer "
               "strings, non-ASCII strings, and everything else the property says about the command-line tools (clap parsing, "
               "dispatch, stdout discipline, exit status) which lives in the binary crate and the OS.",
        samples=["'DC-co' -> (DC, CO)", "'se-SST' -> (SE, SST)", "'dc-' -> error", "'-st' -> error", "'dcst' -> error"],
        assumptions=["reference recogniser: split at the first '-', both sides compared ASCII-case-insensitively with the two tables"],
    ), timeout_s=1200 if tier == "quick" else 3600)


def replay(path):
    import kani_replay
    return kani_replay.replay_file(path)
