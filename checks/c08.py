"""C08 — dynamic solvers answer for the current framework (concrete valid histories, demonic oracle)."""
import kani_check

FUNCS = ["dynamics::DynamicCompleteSemanticsSolver (DynamicSolver + credulous acceptance)", "dynamics::DynamicStableSemanticsSolver (DynamicSolver + credulous / skeptical acceptance)",
         "dynamics::DummyDynamicConstraintsEncoder wrapping the static stable solver (thorough)",
         "dynamics::buffered_dynamic_constraints_encoder::BufferedDynamicConstraintsEncoder (buffering, replay, answer caches)",
         "dynamics::dynamic_constraints_encoder::DynamicConstraintsEncoder (selectors, retired variables)", "aa::AAFramework update methods"]
BOUNDS = ("one harness = one concrete history of updates and queries over the labels {a,b} (listed in kani/src/h_dynamic.rs: building a<->b, cached "
          "and uncached queries with and without certificate, attack removal, argument removal and re-insertion under a new id, a self-attacker "
          "without stable extension); symbolic: every model the backend may return at every call. Each answer and certificate is compared with the "
          "reference semantics on the set model's current framework. OUTSIDE: DynamicPreferredSemanticsSolver (iterative: CBMC does not finish), the "
          "two assumptions-on-attacks solvers (more SAT variables than the oracle's table holds within CBMC's reach), other histories, >2 labels.")
ASSUME = ["demonic oracle (kani/src/oracle.rs)", "set model + reference semantics of kani/src/dynamics.rs, cross-validated natively on every history of <=6 events over 2 labels",
          "a counterexample is only reported after native reproduction"]


def run(tier, seed):
    return kani_check.run("C08", ["c08_"], tier, seed, dict(functions=FUNCS, bounds=BOUNDS, assumptions=ASSUME),
                          jobs=4)


def replay(path):
    import kani_replay
    return kani_replay.replay_file(path)
