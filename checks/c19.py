"""C19 — arguments merged by the equivalence reduction are indistinguishable (SMT validation of the real reduction's output)."""
import json
import os
import sys

import common
from common import Result, VERIF

sys.path.insert(0, os.path.join(VERIF, "tv"))


def run(tier, seed):
    res = Result("C19", tier, seed, "translation_validation")
    ok, log = common.build_native(os.path.join(VERIF, "tv"))
    if not ok:
        res.inconclusive.append("eqdump does not build against /repo: " + log[-800:])
        res.coverage = {"evaluations": 0, "distinct_nontrivial": 0}
        return res
    import tv_equiv
    r = tv_equiv.run(tier, seed)
    checked = 0
    reported = 0
    for v in r["violations"]:
        if v["kind"] == "unknown":
            res.inconclusive.append("%s: %s" % (v.get("tag"), v.get("detail")))
            continue
        if reported >= 5:
            continue
        good, why = tv_equiv.replay(v)
        checked += 1
        if good:
            reported += 1
            path = common.write_replay("C19", "%s_%s" % (v["kind"], v["tag"]), dict(v, replay=why))
            res.violations.append(("%s on %s (n=%d, attacks=%r): %s" % (v["kind"], v["tag"], v["n"], v["attacks"], why), path))
        else:
            res.inconclusive.append("counterexample did not replay: %s %s" % (v["kind"], v["tag"]))
    res.coverage = {
        "programs": r["programs"],
        "disagreements_checked": checked,
        "samples": r["samples"] or ["no framework with a non-trivial class in this run"],
        "frameworks_with_a_merge": r["nontrivial"],
        "violating_frameworks": len([v for v in r["violations"] if v["kind"] != "unknown"]),
        "smt_queries_discharged": r["queries"],
        "solver_s": r["solver_s"],
        "functions_encoded": ["utils::EquivalencyComputer::{new,reduced_af,init_to_reduced_arg,reduced_arg_to_init_args} (run natively; its output partition is the validated artefact)"],
        "bounds": "frameworks with compact ids: all with <=3 arguments, %s of the 65536 with 4 arguments, %s seeded random with 5..10 arguments, "
                  "chains / cycles / cycles with tails up to 13 arguments; per class of merged arguments z3 decides over ALL argument sets "
                  "that no complete extension separates two members; mappings and the grounded / grounded-defeated classes are checked on the "
                  "dump. Outside: larger frameworks, sparse ids (excluded by the property)." % (
                      "1/16 (chosen by the seed)" if tier == "quick" else "all", "300" if tier == "quick" else "5000"),
        "exhaustive": False,
    }
    res.assumptions = [
        "z3 decides the propositional queries; the set-theoretic definition of complete extensions is the reference",
        "the framework dimension is enumerated/sampled (programs); the extension dimension is decided symbolically",
    ]
    return res


def replay(path):
    common.build_native(os.path.join(VERIF, "tv"))
    import tv_equiv
    v = json.load(open(path))
    good, why = tv_equiv.replay(v)
    print(("REPRODUCED: " if good else "NOT REPRODUCED: ") + why)
    return 1 if good else 0
