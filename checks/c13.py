"""C13 — instance readers are total and faithful.

(a) Aspartix reader: the four line patterns, re-extracted from the current source, against the line grammar, decided by
    z3's string theory over every ASCII line up to a length bound (tv/apx_patterns.py); counterexamples are replayed
    through the real AspartixReader.
(b) ICCMA'23 reader: the index guards and id arithmetic (attack lines, query argument, preamble count), re-extracted from
    the current source and decided by z3 over all 64-bit token values and declared sizes (tv/iccma_guard.py);
    counterexamples are replayed through the real Iccma23Reader (tv/src/iccmaread.rs).
"""
import json
import os
import sys

import common
from common import Result, VERIF

sys.path.insert(0, os.path.join(VERIF, "tv"))


def run(tier, seed):
    res = Result("C13", tier, seed, "model_checking")
    ok, log = common.build_native(os.path.join(VERIF, "tv"))
    if not ok:
        res.inconclusive.append("apxread does not build against /repo: " + log[-800:])
        res.coverage = {"evaluations": 0, "distinct_nontrivial": 0}
        return res
    import apx_patterns
    r = apx_patterns.run(tier)
    res.inconclusive += r["inconclusive"]
    replayed = 0
    for v in r["violations"]:
        good, why = apx_patterns.replay(v)
        replayed += 1
        if good:
            path = common.write_replay("C13", "apx_%s" % v["query"], dict(v, replay=why))
            res.violations.append(("Aspartix reader: %s: %s" % (v["what"], why), path))
        else:
            res.inconclusive.append("SMT counterexample did not replay against the real reader: %r (%s)" % (v["line"], why))
    import iccma_guard
    g = iccma_guard.run(tier)
    res.inconclusive += g["inconclusive"]
    for v in g["violations"]:
        good, why = iccma_guard.replay(v)
        replayed += 1
        if good:
            path = common.write_replay("C13", "iccma_%s" % v["query"], dict(v, replay=why))
            res.violations.append(("ICCMA'23 reader: %s (token value %s, %s declared arguments): %s" % (v["what"], v["v"], v["N"], why), path))
        else:
            res.inconclusive.append("SMT counterexample did not replay against the real ICCMA'23 reader: v=%s N=%s (%s)" % (v["v"], v["N"], why))
    kani_part = None
    try:
        import kani_run
        if kani_run.select(["c13_q_"]):
            kani_part = kani_run.run_group(res, "C13", ["c13_"], tier)
            for n, d in kani_part.get("candidates", []):
                path = common.write_replay("C13", "iccma_%s" % n.split("::")[-1], {"harness": n, "failed": d})
                res.violations.append(("%s: %s" % (n, d), path))
    except ImportError:
        pass
    nq = len(r.get("queries", [])) + len(g.get("queries", []))
    res.coverage = {
        "states": max(1, nq),
        "transitions": max(1, nq),
        "traces_validated_against_impl": replayed,
        "samples": [{"pattern": k, "regex": v} for k, v in r.get("patterns", {}).items()] or ["no pattern extracted"],
        "smt_queries": r.get("queries", []) + g.get("queries", []),
        "solver_s": round(r.get("solver_s", 0.0) + g.get("solver_s", 0.0), 3),
        "iccma_sites": g.get("sites", {}),
        "iccma_translator_validation": "%s concrete (value, size) pairs evaluated in the encoding and through the real reader" % g.get("validated", 0),
        "functions_encoded": ["io::aspartix_reader::{ARG_LINE_PATTERN,ARG_LINE_ARG_NAME_PATTERN,ATT_LINE_PATTERN,ATT_LINE_ARG_NAMES_PATTERN} (pattern strings re-extracted from the source, two-stage match of try_read_arg_line / try_read_att_line)",
                              "io::iccma23_reader::Iccma23Reader::read (read_arg closure: parse type, match guard, value; id arithmetic of new_attack_by_ids), Iccma23Reader::read_arg_from_str (guard, id), read_preamble (count guard): expressions re-extracted from the source, 64-bit bit-vector semantics with Rust signedness and overflow"],
        "bounds": "every ASCII line without line terminator of length <= %s (states/transitions = SMT queries discharged; the "
                  "solver decides over all such lines); outside: non-ASCII lines, the control flow around the patterns "
                  "(argument after attack, undeclared argument, blank lines). ICCMA'23 reader: every 64-bit value of an index token and every declared size 0..=isize::MAX (unbounded within the machine word); outside: its tokenisation (lines, white space, str::parse accepting a leading '+'), comments/blank-line control flow, duplicate attack lines" % r.get("bound"),
        "kani": kani_part,
    }
    res.assumptions = [
        "ICCMA'23 part: str::parse::<isize/usize> returns the integer the decimal token denotes or an error (std); the extraction regexes of tv/iccma_guard.py locate the guard expressions (a miss is inconclusive)",
        "z3 string/regex theory; \\s, \\d, [:alpha:], '.' of the regex crate restricted to ASCII (White_Space = 9..13,32; '.' = any char but \\n)",
        "the translation of the regex subset (^ $ \\s \\d . * + ? groups, bracket classes) is hand-written; a construct outside the subset makes the check inconclusive",
        "reference grammar: WS* arg( WS* ID WS* ). WS*   /   WS* att( WS* ID WS* , WS* ID WS* ). WS*   with ID = [_A-Za-z][_A-Za-z0-9]*",
    ]
    return res


def replay(path):
    common.build_native(os.path.join(VERIF, "tv"))
    import apx_patterns
    v = json.load(open(path))
    if "site" in v:
        import iccma_guard
        good, why = iccma_guard.replay(v)
    else:
        good, why = apx_patterns.replay(v)
    print(("REPRODUCED: " if good else "NOT REPRODUCED: ") + why)
    return 1 if good else 0
