"""C16 (a) — every assumption handed to the backend is covered by the DIMACS header's variable count (Kani), and
C16 (reply) — the verdict table at the end of the real reply parser, re-extracted from the source and decided by z3
(tv/reply_table.py): a model only with status line + value line + terminating 0, UNSAT only with its status line."""
import os
import sys

import common
import kani_check

sys.path.insert(0, os.path.join(common.VERIF, "tv"))

FUNCS = ['solvers::StableSemanticsSolver::{compute_one_extension,are_credulously_accepted[_with_certificate],are_skeptically_accepted[_with_certificate]}', 'solvers::CompleteSemanticsSolver::are_credulously_accepted[_with_certificate] (DC-CO and DC-PR, encoders aux_var / exp / hybrid)', 'solvers::GroundedSemanticsSolver (GR, SE-CO, DS-CO)', 'utils::ConnectedComponentsComputer', 'utils::grounded_extension', 'encodings::{DefaultStableConstraintsEncoder,aux_var,exp,hybrid}::{encode_constraints,arg_to_lit,assignment_to_extension}', 'aa::{AAFramework,ArgumentSet}, utils::LabelSet (HashMap replaced by VecMap under cfg(kani))'] + ["sat::SatSolver::{n_vars,add_clause,solve_under_assumptions} as used by the solvers (oracle-side obligation)"]
BOUNDS = 'one harness = one concrete framework presentation (graph code, plain / duplicated attacks / sparse ids) x every listed query on a fresh solver object; symbolic: every model the SAT backend may return at every call (demonic oracle: SAT/UNSAT computed over all assignments of <=6 variables, the model is an arbitrary satisfying one). Frameworks: 2 arguments (quick), 2-3 arguments (thorough), listed in the harness names (gN = graph code, bit i*n+j = attack i->j). OUTSIDE the claim: the iterative solvers PR (SE/DS), SST, STG, ID and MaximalExtensionComputer on frameworks where the backend returns a model (CBMC does not finish on them even for a<->b: >16 GB / >25 min, see DESIGN.md; the harnesses on them use frameworks whose grounded extension decides every argument, so that every SAT call is unsatisfiable), frameworks with more than 3 arguments, the real backends.'
ASSUME = ['demonic oracle (kani/src/oracle.rs): any correct SatSolver may return any model; reserved-but-unused variables are reported with an arbitrary value', 'reference semantics (kani/src/spec.rs) evaluated by rustc at compile time (const fn), cross-validated natively against the real code on all frameworks with <=3 arguments', 'a counterexample is only reported after native reproduction (native/explore find)'] + ["BufferedSatSolver writes 'p cnf n_vars n_clauses+|assumptions|' and one unit clause per assumption (read from src/sat/buffered_sat_solver.rs, not model-checked): "
               "the instance is well-formed iff no assumption variable exceeds n_vars() at the time of the call, which is what the oracle records"]


def reply_part(res):
    ok, log = common.build_native(os.path.join(common.VERIF, "tv"))
    if not ok:
        res.inconclusive.append("replyrun does not build against /repo: " + log[-800:])
        return
    import reply_table
    r = reply_table.run()
    res.inconclusive += r["inconclusive"]
    replayed = 0
    for v in r["violations"]:
        good, why = reply_table.replay(v)
        replayed += 1
        if good:
            path = common.write_replay("C16", "reply_%s" % v["query"], dict(v, replay=why))
            res.violations.append(("reply parser: %s: %s" % (v["what"], why), path))
        else:
            res.inconclusive.append("SMT counterexample did not replay against the real reply parser: %r (%s)" % (v["reply"], why))
    cov = res.coverage if isinstance(res.coverage, dict) else {}
    cov["reply_table"] = {"table": r.get("table"), "facts": r.get("flags"), "smt_queries": r.get("queries", []),
                          "solver_s": round(r.get("solver_s", 0.0), 3), "replayed": replayed,
                          "translator_validation": "%s concrete replies evaluated in the encoding and through the real parser" % r.get("validated", 0),
                          "bounds": "all 3 x 2 x 2 combinations of (status line seen, value line seen, terminating 0 seen) with end => seen; "
                                    "outside: the line classification and literal parsing that collect these facts (located textually, not encoded), "
                                    "literals after the terminating 0, the pipe/process clause"}
    if "functions_encoded" in cov and isinstance(cov["functions_encoded"], list):
        cov["functions_encoded"].append("sat::BufferedSatSolver::solve_under_assumptions: final `match status` verdict table (re-extracted from the source, z3)")
    res.coverage = cov
    res.assumptions.append("reply table: the flags assignment_line_seen / assignment_line_end are set where the extraction located them (value-line branch; literal 0) and nowhere reset")


def run(tier, seed):
    res = _run_kani(tier, seed)
    reply_part(res)
    return res


def _run_kani(tier, seed):
    return kani_check.run("C16", ["c16_"], tier, seed, dict(
        functions=FUNCS, bounds="header obligation on every SAT call of the listed queries; " + BOUNDS +
        " Also outside: the tokenisation of the reply (BufReader / str::parse: CBMC does not finish; only its final verdict table is decided, by z3, see reply_table), the 'cannot hang' clause (threads, pipes, child process).",
        assumptions=ASSUME), jobs=6)


def replay(path):
    import json
    v = json.load(open(path))
    if "reply" in v:
        common.build_native(os.path.join(common.VERIF, "tv"))
        import reply_table
        good, why = reply_table.replay(v)
        print(("REPRODUCED: " if good else "NOT REPRODUCED: ") + why)
        return 1 if good else 0
    import kani_replay
    return kani_replay.replay_file(path)
