"""C07 — Kani harnesses over the static solvers (see kani/src/h_static.rs, kani/src/statics.rs)."""
import kani_check

FUNCS = ['solvers::StableSemanticsSolver::{compute_one_extension,are_credulously_accepted[_with_certificate],are_skeptically_accepted[_with_certificate]}', 'solvers::CompleteSemanticsSolver::are_credulously_accepted[_with_certificate] (DC-CO and DC-PR, encoders aux_var / exp / hybrid)', 'solvers::GroundedSemanticsSolver (GR, SE-CO, DS-CO)', 'utils::ConnectedComponentsComputer', 'utils::grounded_extension', 'encodings::{DefaultStableConstraintsEncoder,aux_var,exp,hybrid}::{encode_constraints,arg_to_lit,assignment_to_extension}', 'aa::{AAFramework,ArgumentSet}, utils::LabelSet (HashMap replaced by VecMap under cfg(kani))']
BOUNDS = 'one harness = one concrete framework presentation (graph code, plain / duplicated attacks / sparse ids) x every listed query on a fresh solver object; symbolic: every model the SAT backend may return at every call (demonic oracle: SAT/UNSAT computed over all assignments of <=6 variables, the model is an arbitrary satisfying one). Frameworks: 2 arguments (quick), 2-3 arguments (thorough), listed in the harness names (gN = graph code, bit i*n+j = attack i->j). OUTSIDE the claim: the iterative solvers PR (SE/DS), SST, STG, ID and MaximalExtensionComputer on frameworks where the backend returns a model (CBMC does not finish on them even for a<->b: >16 GB / >25 min, see DESIGN.md; the harnesses on them use frameworks whose grounded extension decides every argument, so that every SAT call is unsatisfiable), frameworks with more than 3 arguments, the real backends.'
ASSUME = ['demonic oracle (kani/src/oracle.rs): any correct SatSolver may return any model; reserved-but-unused variables are reported with an arbitrary value', 'reference semantics (kani/src/spec.rs) evaluated by rustc at compile time (const fn), cross-validated natively against the real code on all frameworks with <=3 arguments', 'a counterexample is only reported after native reproduction (native/explore find)']


def run(tier, seed):
    return kani_check.run("C07", ["c07_"], tier, seed, dict(
        functions=FUNCS, bounds="queries over lists of two arguments (all ordered pairs, repetitions included), with and without certificate; " + BOUNDS, assumptions=ASSUME),
        jobs=8 if tier == "thorough" else 6)


def replay(path):
    import kani_replay
    return kani_replay.replay_file(path)
