#!/usr/bin/env python3-vt
"""C10a: SMT translation validation of the CNFs emitted by the real crustabri encoders.

For every (framework, encoder, plain|range) the real encoder (linked from /repo's working tree by `cnfdump`) is run
natively against a recording SAT solver; the clauses it emitted are the "program" that is validated.  z3 then decides,
over *all* assignments of the CNF's variables, the obligations of property C10:

  sound      : every model of the CNF, translated back by assignment_to_extension, is a conflict-free / admissible /
               complete / stable set of the framework (whatever the encoder is meant to capture);
  complete   : every such set is the translation of at least one model (exists/forall query, aux variables quantified);
  r-sound    : a range variable is true only for an argument in the range of the model's set;
  r-complete : every such set has a model whose range variables equal its range exactly;
  layout     : distinct arguments -> distinct positive literals, disjoint from range variables, every variable
               occurring is within n_vars, the var->argument map of assignment_to_extension is the inverse of arg_to_lit.

A `sat` answer is a concrete counterexample; it is replayed against the real code (assignment_to_extension through
`cnfdump ext`, clause satisfaction and the set-theoretic definition by brute force in Python) before it is reported.
"""
import itertools
import json
import os
import random
import subprocess
import sys
import time
from multiprocessing import Pool

import z3

HERE = os.path.dirname(os.path.abspath(__file__))
CNFDUMP = os.path.join(HERE, "target", "debug", "cnfdump")

INTENT = {
    "aux_cf": "cf", "exp_cf": "cf",
    "aux_adm": "adm",
    "aux_co": "co", "exp_co": "co", "hybrid_co": "co",
    "stable": "st",
}


# ----------------------------------------------------------------------------------------------- framework generation
def af_line(kind, tag, n, attacks):
    return "%s %s %d %s" % (kind, tag, n, " ".join("%d-%d" % a for a in attacks))


def all_afs(n):
    pairs = [(i, j) for i in range(n) for j in range(n)]
    for code in range(1 << len(pairs)):
        yield code, [p for k, p in enumerate(pairs) if (code >> k) & 1]


def threshold_shapes():
    """Shapes around the hybrid encoder's switching threshold (product of defender-set sizes 31 / 32 / 33 ...)."""
    shapes = []

    def target_with(def_sizes, tag, dup=False):
        # argument 0 = target t, arguments 1..k = attackers, then defenders
        atts = []
        nxt = 1 + len(def_sizes)
        for k, size in enumerate(def_sizes):
            a = 1 + k
            if dup:
                # all "defenders" are duplicated declarations of one attack d->a
                d = nxt
                nxt += 1
                atts += [(d, a)] * size
            else:
                for _ in range(size):
                    atts.append((nxt, a))
                    nxt += 1
        for k in range(len(def_sizes)):
            atts.append((1 + k, 0))
        shapes.append((tag, nxt, atts))

    target_with([31], "thr31")
    target_with([32], "thr32")
    target_with([33], "thr33")
    target_with([2, 2, 2, 2, 2], "thr2x5")
    target_with([2, 2, 2, 2], "thr2x4")
    target_with([4, 8], "thr4x8")
    target_with([3, 11], "thr3x11")
    target_with([31], "thr31dup", dup=True)
    target_with([32], "thr32dup", dup=True)
    target_with([4, 8], "thr4x8dup", dup=True)
    # the 3-argument shape of DESIGN.md: 32-fold duplicated attacks b->c, c->a
    shapes.append(("thr3dup32", 3, [(1, 2)] * 32 + [(2, 0)]))
    shapes.append(("thr3dup31", 3, [(1, 2)] * 31 + [(2, 0)]))
    # attackers of the target attack each other and the target defends itself: threshold reached inside a cycle
    atts = []
    for a in range(1, 6):
        atts += [((a % 5) + 1, a), (0, a), (a, 0)]
    shapes.append(("thrcycle", 6, atts))
    return shapes


def gen_programs(tier, seed):
    rnd = random.Random(seed)
    lines = []
    nmax_exh = 3
    for n in range(0, nmax_exh + 1):
        for code, atts in all_afs(n):
            lines.append(af_line("af", "n%dg%d" % (n, code), n, atts))
    # duplicate / reordered declarations of the small frameworks
    for n in (1, 2):
        for code, atts in all_afs(n):
            if atts:
                d = atts + atts[::-1]
                lines.append(af_line("af", "n%dg%ddup" % (n, code), n, d))
    n_rand = 150 if tier == "quick" else 2000
    for k in range(n_rand):
        n = rnd.randint(4, 8)
        # dense frameworks only up to 5 arguments: the exp encoder emits prod(|defender sets|) clauses per argument
        p = rnd.choice([0.08, 0.15, 0.3, 0.5] if n <= 5 else [0.08, 0.15, 0.25])
        atts = [(i, j) for i in range(n) for j in range(n) if rnd.random() < p]
        rnd.shuffle(atts)
        if atts and rnd.random() < 0.3:
            atts += [rnd.choice(atts) for _ in range(rnd.randint(1, 3))]
        lines.append(af_line("af", "r%d_%d" % (seed, k), n, atts))
    n_cc = 40 if tier == "quick" else 500
    for k in range(n_cc):
        # several components; the real component extraction renumbers the arguments
        n = rnd.randint(4, 9)
        perm = list(range(n))
        rnd.shuffle(perm)
        groups = []
        i = 0
        while i < n:
            s = rnd.randint(1, 4)
            groups.append(perm[i:i + s])
            i += s
        atts = []
        for g in groups:
            for a in g:
                for b in g:
                    if rnd.random() < 0.4:
                        atts.append((a, b))
        rnd.shuffle(atts)
        lines.append(af_line("cc", "c%d_%d" % (seed, k), n, atts))
    for tag, n, atts in threshold_shapes():
        # "thr" tags are validated for the complete-semantics encoders only (the shapes exist for the hybrid switch;
        # their 2^30+ conflict-free sets make the quantified completeness query for cf/adm time out)
        lines.append(af_line("af", tag, n, atts))
    if tier == "thorough":
        for code, atts in itertools.islice(all_afs(4), seed % 3, 1 << 16, 3):
            lines.append(af_line("af", "n4g%d" % code, 4, atts))
    return lines


# ----------------------------------------------------------------------------------------------- SMT obligations
def spec_formulas(n, attacks, s):
    """Set-theoretic definitions over Bool terms s[0..n)."""
    attackers = [[] for _ in range(n)]
    for (i, j) in attacks:
        attackers[j].append(i)
    attacked = [z3.Or([s[i] for i in attackers[j]]) if attackers[j] else z3.BoolVal(False) for j in range(n)]
    cf = z3.And([z3.Not(z3.And(s[i], s[j])) for (i, j) in attacks]) if attacks else z3.BoolVal(True)
    defended = [z3.And([attacked[i] for i in attackers[j]]) if attackers[j] else z3.BoolVal(True) for j in range(n)]
    adm = z3.And([cf] + [z3.Implies(s[j], defended[j]) for j in range(n)])
    co = z3.And([cf] + [s[j] == defended[j] for j in range(n)])
    st = z3.And([cf] + [z3.Or(s[j], attacked[j]) for j in range(n)])
    rng = [z3.Or(s[j], attacked[j]) for j in range(n)]
    return {"cf": cf, "adm": adm, "co": co, "st": st}, rng


def py_spec(n, attacks, members, intent):
    """Brute-force definition used when a counterexample is replayed."""
    S = set(members)
    att = set(attacks)
    cf = not any((i in S and j in S) for (i, j) in att)
    attacked = {j for (i, j) in att if i in S}
    defended = {j for j in range(n) if all(i in attacked for (i, jj) in att if jj == j)}
    if intent == "cf":
        return cf
    if intent == "adm":
        return cf and S <= defended
    if intent == "co":
        return cf and S == defended
    if intent == "st":
        return cf and (S | attacked) == set(range(n))
    raise ValueError(intent)


def py_range(n, attacks, members):
    S = set(members)
    return S | {j for (i, j) in attacks if i in S}


class Outcome:
    def __init__(self):
        self.queries = 0
        self.solver_s = 0.0
        self.violations = []  # dicts
        self.inconclusive = []


def check_one(d, out, timeout_ms=60000):
    n = d["n"]
    attacks = [tuple(a) for a in d["attacks"]]
    nv = d["n_vars"]
    enc = d["encoder"]
    intent = INTENT[enc]
    ident = "%s/%s/%s" % (d["tag"], enc, "range" if d["range"] else "plain")
    base = {"id": ident, "n": n, "attacks": attacks, "encoder": enc, "range": d["range"]}

    # ---- layout (syntactic part, decided without the solver; the semantic part is what the queries below decide)
    lits = d["arg_lits"]
    problems = []
    if len(lits) != n or any(l <= 0 for l in lits) or len(set(lits)) != n:
        problems.append("arg_to_lit is not an injection into positive literals: %r" % lits)
    used = {abs(l) for c in d["clauses"] for l in c}
    if any(l > nv for l in lits) and n > 0 and d["clauses"]:
        problems.append("argument literal above n_vars=%d: %r" % (nv, lits))
    if used and max(used) > nv:
        problems.append("clause variable above n_vars")
    frv = d["first_range_var"]
    rvars = list(range(frv, frv + n)) if d["range"] else []
    if d["range"]:
        if set(rvars) & set(lits):
            problems.append("range variables collide with argument variables")
        if rvars and rvars[-1] > nv:
            problems.append("range variable above n_vars=%d (first_range_var=%d)" % (nv, frv))
    # var -> argument map of assignment_to_extension (observed one-hot) must be the inverse of arg_to_lit
    width = len(d["onehot"])
    var2arg = {}
    for v0, ext in enumerate(d["onehot"]):
        if len(ext) > 1:
            problems.append("one-hot assignment of var %d yields several arguments %r" % (v0 + 1, ext))
        if ext:
            var2arg[v0 + 1] = ext[0]
    for i, l in enumerate(lits):
        if var2arg.get(l) != i:
            problems.append("assignment_to_extension maps var %d to %r, arg_to_lit maps arg %d to it" % (l, var2arg.get(l), i))
    for v, a in var2arg.items():
        if a >= n or lits[a] != v:
            problems.append("assignment_to_extension maps non-argument var %d to argument %d" % (v, a))
    if sorted(d["all_true"]) != list(range(n)) or d["all_none"] or d["all_false"]:
        problems.append("assignment_to_extension on all-true/all-none/all-false: %r %r %r" % (d["all_true"], d["all_none"], d["all_false"]))
    for p in problems:
        out.violations.append(dict(base, kind="layout", detail=p))
    if problems:
        return

    V = [None] + [z3.Bool("v%d" % i) for i in range(1, nv + 1)]
    if n > 0 and max(lits) > nv:
        # no clause at all and nothing reserved: arguments unconstrained (the solvers never query such a CNF without reserve)
        V += [z3.Bool("v%d" % i) for i in range(nv + 1, max(lits) + 1)]
    cnf = z3.And([z3.Or([V[l] if l > 0 else z3.Not(V[-l]) for l in c]) for c in d["clauses"]]) if d["clauses"] else z3.BoolVal(True)
    x = [V[l] for l in lits]
    spec, rng = spec_formulas(n, attacks, x)
    target = spec[intent]
    others = [V[i] for i in range(1, len(V)) if i not in set(lits)]

    def ask(name, formula, on_sat):
        s = z3.Solver()
        s.set("timeout", timeout_ms)
        s.add(formula)
        t0 = time.time()
        r = s.check()
        out.solver_s += time.time() - t0
        out.queries += 1
        if r == z3.unsat:
            return
        if r == z3.unknown:
            out.inconclusive.append("%s %s: %s" % (ident, name, s.reason_unknown()))
            return
        m = s.model()
        on_sat(m)

    def assignment_of(m):
        return [bool(z3.is_true(m.eval(V[i], model_completion=True))) for i in range(1, len(V))]

    def sat_sound(m):
        out.violations.append(dict(base, kind="unsound", assignment=assignment_of(m), clauses=d["clauses"]))

    ask("sound", z3.And(cnf, z3.Not(target)), sat_sound)

    def sat_complete(m):
        s_set = [i for i in range(n) if z3.is_true(m.eval(x[i], model_completion=True))]
        out.violations.append(dict(base, kind="incomplete", set=s_set, clauses=d["clauses"], n_vars=len(V) - 1, arg_lits=lits))

    if others:
        ask("complete", z3.And(target, z3.ForAll(others, z3.Not(cnf))), sat_complete)
    else:
        ask("complete", z3.And(target, z3.Not(cnf)), sat_complete)

    if d["range"]:
        r = [V[v] for v in rvars]

        def sat_rsound(m):
            out.violations.append(dict(base, kind="range-unsound", assignment=assignment_of(m), clauses=d["clauses"], first_range_var=frv))

        ask("r-sound", z3.And(cnf, z3.Or([z3.And(r[i], z3.Not(rng[i])) for i in range(n)]) if n else z3.BoolVal(False)), sat_rsound)
        aux = [V[i] for i in range(1, len(V)) if i not in set(lits) and i not in set(rvars)]
        exact = z3.And([r[i] == rng[i] for i in range(n)]) if n else z3.BoolVal(True)

        def sat_rcomplete(m):
            s_set = [i for i in range(n) if z3.is_true(m.eval(x[i], model_completion=True))]
            out.violations.append(dict(base, kind="range-incomplete", set=s_set, clauses=d["clauses"], n_vars=len(V) - 1, arg_lits=lits, first_range_var=frv))

        body = z3.Not(z3.And(cnf, exact))
        if aux or rvars:
            ask("r-complete", z3.And(target, z3.ForAll(aux + r, body)) if (aux + r) else z3.And(target, body), sat_rcomplete)


# ----------------------------------------------------------------------------------------------- replay
def replay(v):
    """Confirms a reported counterexample against the real code; returns (confirmed, explanation)."""
    n, attacks = v["n"], [tuple(a) for a in v["attacks"]]
    intent = INTENT[v["encoder"]]
    if v["kind"] == "layout":
        return True, v["detail"]
    if v["kind"] in ("unsound", "range-unsound"):
        a = v["assignment"]
        for c in v["clauses"]:
            if not any((a[abs(l) - 1] if l > 0 else not a[abs(l) - 1]) for l in c):
                return False, "assignment does not satisfy the dumped clauses"
        line = "ext %s %s %d %s %s\n" % (v["encoder"], "range" if v["range"] else "plain", n,
                                         ",".join("%d-%d" % t for t in attacks) or ",", "".join("1" if b else "0" for b in a))
        r = subprocess.run([CNFDUMP], input=line, capture_output=True, text=True, timeout=60)
        ext = json.loads(r.stdout.strip())
        if v["kind"] == "unsound":
            ok = py_spec(n, attacks, ext, intent)
            return (not ok), "model %s translates (real assignment_to_extension) to %r which is %sa %s set" % (
                "".join("1" if b else "0" for b in a), ext, "" if ok else "not ", intent)
        rg = py_range(n, attacks, ext)
        frv = v["first_range_var"]
        bad = [i for i in range(n) if a[frv + i - 1] and i not in rg]
        return bool(bad), "range variables true for %r outside the range %r of %r" % (bad, sorted(rg), ext)
    if v["kind"] in ("incomplete", "range-incomplete"):
        S = v["set"]
        if not py_spec(n, attacks, S, intent):
            return False, "set is not a %s set" % intent
        nv = v["n_vars"]
        lits = v["arg_lits"]
        free = [i for i in range(1, nv + 1) if i not in lits]
        if len(free) > 22:
            # too many to enumerate natively: confirm with an independent propositional query (quantifier-free)
            s = z3.Solver()
            V = [None] + [z3.Bool("w%d" % i) for i in range(1, nv + 1)]
            for c in v["clauses"]:
                s.add(z3.Or([V[l] if l > 0 else z3.Not(V[-l]) for l in c]))
            for i in range(n):
                s.add(V[lits[i]] == (i in S))
            if v["kind"] == "range-incomplete":
                rg = py_range(n, attacks, S)
                for i in range(n):
                    s.add(V[v["first_range_var"] + i] == (i in rg))
            return s.check() == z3.unsat, "no model of the CNF translates to %r (checked quantifier-free)" % S
        rg = py_range(n, attacks, S)
        for bits in range(1 << len(free)):
            a = [False] * (nv + 1)
            for i in range(n):
                a[lits[i]] = i in S
            for k, f in enumerate(free):
                a[f] = bool((bits >> k) & 1)
            if v["kind"] == "range-incomplete" and any(a[v["first_range_var"] + i] != (i in rg) for i in range(n)):
                continue
            if all(any((a[l] if l > 0 else not a[-l]) for l in c) for c in v["clauses"]):
                return False, "a model exists"
        return True, "the %s set %r is the translation of no model%s (all %d assignments of the other variables tried)" % (
            intent, S, " with exact range variables" if v["kind"] == "range-incomplete" else "", 1 << len(free))
    return False, "unknown kind"


# ----------------------------------------------------------------------------------------------- driver
def work(chunk):
    lines, timeout_ms = chunk
    out = Outcome()
    r = subprocess.run([CNFDUMP], input="\n".join(lines) + "\n", capture_output=True, text=True)
    if r.returncode != 0:
        out.inconclusive.append("cnfdump failed: " + r.stderr[-400:])
        return out, 0, []
    dumps = [json.loads(l) for l in r.stdout.splitlines() if l.strip()]
    samples = []
    for d in dumps:
        if d["tag"].startswith("thr") and INTENT[d["encoder"]] != "co":
            continue
        check_one(d, out, timeout_ms)
        if not d.get("reuse_same", True):
            # the encoder object emitted a different CNF the second time: validate that one as a program of its own
            d2 = dict(d, clauses=d["clauses_second"], n_vars=max(d["n_vars_second"], d["n_vars"]), tag=d["tag"] + "@second-use")
            check_one(d2, out, timeout_ms)
        if len(samples) < 1 and d["n"] >= 2 and d["clauses"]:
            samples.append({k: d[k] for k in ("tag", "encoder", "range", "n", "attacks", "clauses", "arg_lits", "first_range_var", "n_vars")})
    return out, len([d for d in dumps if not (d["tag"].startswith("thr") and INTENT[d["encoder"]] != "co")]), samples


def run(tier="quick", seed=0, jobs=16):
    t0 = time.time()
    lines = gen_programs(tier, seed)
    chunks = [[] for _ in range(jobs * 4)]
    for k, l in enumerate(lines):
        chunks[k % len(chunks)].append(l)
    timeout_ms = 60000 if tier == "quick" else 300000
    with Pool(jobs) as p:
        results = p.map(work, [(c, timeout_ms) for c in chunks if c])
    total = Outcome()
    programs = 0
    samples = []
    for out, nd, smp in results:
        total.queries += out.queries
        total.solver_s += out.solver_s
        total.violations += out.violations
        total.inconclusive += out.inconclusive
        programs += nd
        samples += smp
    confirmed = []
    unconfirmed = []
    for v in total.violations:
        ok, why = replay(v)
        v["replay"] = why
        (confirmed if ok else unconfirmed).append(v)
    return {
        "frameworks": len(lines), "programs": programs, "queries": total.queries, "solver_s": round(total.solver_s, 2),
        "confirmed": confirmed, "unconfirmed": unconfirmed, "inconclusive": total.inconclusive,
        "samples": samples[:4], "wall_s": round(time.time() - t0, 2),
    }


if __name__ == "__main__":
    tier = sys.argv[1] if len(sys.argv) > 1 else "quick"
    seed = int(os.environ.get("VERIF_SEED", "0"))
    res = run(tier, seed)
    res["samples"] = res["samples"][:1]
    print(json.dumps({k: (v if k not in ("confirmed", "unconfirmed") else v[:5]) for k, v in res.items()})[:6000])
