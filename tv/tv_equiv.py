#!/usr/bin/env python3-vt
"""C19: the equivalence reduction, validated per framework by SMT.

The real EquivalencyComputer (linked from /repo's working tree by `eqdump`) is run natively on each framework; the
partition and the two mappings it produces are the artefact that is validated:

  mappings : init->reduced is total into the reduced arguments, reduced->init lists exactly the members of the class,
             both are inverse at the level of classes, classes partition the arguments (decided syntactically on the dump);
  merged   : for every class C and a, b in C, z3 decides over ALL subsets E:  complete(E) /\ (a in E xor b in E)  is unsat;
  grounded : all members of the grounded extension share one class, all arguments it defeats share one class.
A `sat` answer is a concrete complete extension separating two merged arguments; it is re-checked by brute force in
Python against the attack list before being reported.
"""
import itertools
import json
import os
import random
import subprocess
import sys
import time
from multiprocessing import Pool

import z3

HERE = os.path.dirname(os.path.abspath(__file__))
EQDUMP = os.path.join(HERE, "target", "debug", "eqdump")


def all_afs(n):
    pairs = [(i, j) for i in range(n) for j in range(n)]
    for code in range(1 << len(pairs)):
        yield code, [p for k, p in enumerate(pairs) if (code >> k) & 1]


def gen(tier, seed):
    rnd = random.Random(seed)
    lines = []
    for n in range(0, 4):
        for code, atts in all_afs(n):
            lines.append("af n%dg%d %d %s" % (n, code, n, " ".join("%d-%d" % a for a in atts)))
    step = 16 if tier == "quick" else 1
    for code, atts in itertools.islice(all_afs(4), seed % step, 1 << 16, step):
        lines.append("af n4g%d 4 %s" % (code, " ".join("%d-%d" % a for a in atts)))
    for k in range(300 if tier == "quick" else 5000):
        n = rnd.randint(5, 10)
        p = rnd.choice([0.05, 0.1, 0.15, 0.25, 0.4])
        atts = [(i, j) for i in range(n) for j in range(n) if rnd.random() < p and (i != j or rnd.random() < 0.3)]
        rnd.shuffle(atts)
        lines.append("af r%d_%d %d %s" % (seed, k, n, " ".join("%d-%d" % a for a in atts)))
    # structured: chains, even/odd cycles, trees hanging off cycles (where the grounded propagation matters)
    for n in range(2, 12):
        lines.append("af chain%d %d %s" % (n, n, " ".join("%d-%d" % (i, i + 1) for i in range(n - 1))))
        lines.append("af cycle%d %d %s" % (n, n, " ".join("%d-%d" % (i, (i + 1) % n) for i in range(n))))
        lines.append("af tail%d %d %s" % (n, n + 2, " ".join("%d-%d" % (i, (i + 1) % n) for i in range(n)) + " %d-%d %d-%d" % (0, n, n, n + 1)))
    return lines


def py_complete(n, atts, S):
    S = set(S)
    if any(i in S and j in S for (i, j) in atts):
        return False
    attacked = {j for (i, j) in atts if i in S}
    defended = {a for a in range(n) if all(i in attacked for (i, j) in atts if j == a)}
    return S == defended


def py_grounded(n, atts):
    S = set()
    while True:
        attacked = {j for (i, j) in atts if i in S}
        T = {a for a in range(n) if all(i in attacked for (i, j) in atts if j == a)}
        if T == S:
            return S, attacked
        S = T


def check(d):
    """returns (queries, solver_s, violations)"""
    n = d["n"]
    atts = [tuple(a) for a in d["attacks"]]
    v = []
    if not d["ok"]:
        return 0, 0.0, [dict(kind="panic", tag=d["tag"], n=n, attacks=atts, detail="EquivalencyComputer::new panicked")]
    i2r = d["init_to_reduced"]
    r2i = d["reduced_to_init"]
    nr = d["n_reduced"]
    if len(i2r) != n or any(r < 0 or r >= nr for r in i2r):
        v.append("init_to_reduced is not total into the reduced arguments: %r" % i2r)
    elif len(r2i) != nr:
        v.append("reduced_to_init does not cover the reduced arguments")
    else:
        for a in range(n):
            if a not in r2i[i2r[a]]:
                v.append("argument %d is not listed in the class of its reduced argument %d" % (a, i2r[a]))
        for r, members in enumerate(r2i):
            if not members:
                v.append("reduced argument %d has an empty class" % r)
            for a in members:
                if a < 0 or a >= n or i2r[a] != r:
                    v.append("class of reduced argument %d lists %d which maps to %r" % (r, a, i2r[a] if 0 <= a < n else None))
        allm = sorted(a for m in r2i for a in m)
        if allm != list(range(n)):
            v.append("classes do not partition the arguments: %r" % r2i)
    if v:
        return 0, 0.0, [dict(kind="mapping", tag=d["tag"], n=n, attacks=atts, detail=x, dump=d) for x in v[:3]]
    out = []
    queries = 0
    t_s = 0.0
    merged = [m for m in r2i if len(m) > 1]
    if merged:
        s = [z3.Bool("s%d" % i) for i in range(n)]
        attackers = [[i for (i, j) in atts if j == a] for a in range(n)]
        attacked = [z3.Or([s[i] for i in attackers[a]]) if attackers[a] else z3.BoolVal(False) for a in range(n)]
        cf = z3.And([z3.Not(z3.And(s[i], s[j])) for (i, j) in atts]) if atts else z3.BoolVal(True)
        defended = [z3.And([attacked[i] for i in attackers[a]]) if attackers[a] else z3.BoolVal(True) for a in range(n)]
        co = z3.And([cf] + [s[a] == defended[a] for a in range(n)])
        sol = z3.Solver()
        sol.set("timeout", 60000)
        sol.add(co)
        for m in merged:
            # one query per class: some member differs from the first
            sol.push()
            sol.add(z3.Or([s[a] != s[m[0]] for a in m[1:]]))
            t0 = time.time()
            r = sol.check()
            t_s += time.time() - t0
            queries += 1
            if r == z3.sat:
                mod = sol.model()
                E = [i for i in range(n) if z3.is_true(mod.eval(s[i], model_completion=True))]
                out.append(dict(kind="merged", tag=d["tag"], n=n, attacks=atts, cls=m, extension=E, dump=d))
            elif r == z3.unknown:
                out.append(dict(kind="unknown", tag=d["tag"], n=n, attacks=atts, detail=sol.reason_unknown()))
            sol.pop()
    G, D = py_grounded(n, atts)
    if len({i2r[a] for a in G}) > 1:
        out.append(dict(kind="grounded", tag=d["tag"], n=n, attacks=atts, detail="grounded arguments %r are spread over classes %r" % (sorted(G), sorted({i2r[a] for a in G})), dump=d))
    if len({i2r[a] for a in D}) > 1:
        out.append(dict(kind="grounded", tag=d["tag"], n=n, attacks=atts, detail="arguments defeated by the grounded extension %r are spread over classes %r" % (sorted(D), sorted({i2r[a] for a in D})), dump=d))
    return queries, t_s, out


def work(lines):
    r = subprocess.run([EQDUMP], input="\n".join(lines) + "\n", capture_output=True, text=True)
    if r.returncode != 0:
        return 0, 0, 0.0, [dict(kind="unknown", tag="-", detail="eqdump failed: " + r.stderr[-300:])], [], 0
    dumps = [json.loads(l) for l in r.stdout.splitlines() if l.strip()]
    q = 0
    ts = 0.0
    viol = []
    nontrivial = 0
    samples = []
    for d in dumps:
        a, b, c = check(d)
        q += a
        ts += b
        viol += c
        if d.get("ok") and d["n_reduced"] < d["n"]:
            nontrivial += 1
            if len(samples) < 1 and d["n"] >= 4:
                samples.append({k: d[k] for k in ("tag", "n", "attacks", "reduced_to_init")})
    return len(dumps), q, ts, viol, samples, nontrivial


def replay(v):
    if v["kind"] == "merged":
        atts = [tuple(a) for a in v["attacks"]]
        E = v["extension"]
        ok = py_complete(v["n"], atts, E)
        ins = [a in E for a in v["cls"]]
        return ok and len(set(ins)) > 1, "complete extension %r (checked by brute force: %s) separates the merged arguments %r" % (E, ok, v["cls"])
    if v["kind"] in ("mapping", "grounded", "panic"):
        # re-run the dumper on that single framework
        line = "af x %d %s\n" % (v["n"], " ".join("%d-%d" % tuple(a) for a in v["attacks"]))
        r = subprocess.run([EQDUMP], input=line, capture_output=True, text=True)
        d = json.loads(r.stdout.strip())
        _, _, again = check(d)
        return any(a["kind"] == v["kind"] for a in again), v.get("detail", "")
    return False, "not replayable"


def run(tier="quick", seed=0, jobs=16):
    t0 = time.time()
    lines = gen(tier, seed)
    chunks = [[] for _ in range(jobs * 4)]
    for k, l in enumerate(lines):
        chunks[k % len(chunks)].append(l)
    with Pool(jobs) as p:
        rs = p.map(work, [c for c in chunks if c])
    res = {"frameworks": len(lines), "programs": sum(r[0] for r in rs), "queries": sum(r[1] for r in rs),
           "solver_s": round(sum(r[2] for r in rs), 2), "violations": [v for r in rs for v in r[3]],
           "samples": [s for r in rs for s in r[4]][:3], "nontrivial": sum(r[5] for r in rs)}
    res["wall_s"] = round(time.time() - t0, 2)
    return res


if __name__ == "__main__":
    r = run(sys.argv[1] if len(sys.argv) > 1 else "quick", int(os.environ.get("VERIF_SEED", "0")))
    r["violations"] = r["violations"][:5]
    print(json.dumps(r)[:3000])
