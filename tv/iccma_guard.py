#!/usr/bin/env python3-vt
"""C13 (ICCMA'23 part): the index arithmetic of the real ICCMA'23 reader, decided by z3 over ALL 64-bit token values.

CBMC does not get through `Iccma23Reader::read` on symbolic bytes (BufReader::lines / split_whitespace / str::parse,
DESIGN.md section 2).  What decides whether an attack line `i j` (or a query argument) is accepted, and to which
argument it is mapped, is however a handful of integer expressions over the parsed number `n` and the declared number of
arguments: the match guard after `parse::<T>()`, the value handed on, and the id arithmetic (`attacker - 1`).  They are
re-extracted from /repo's current source on every run, translated to 64-bit bit-vector terms with Rust's signedness
and overflow rules, and compared with the format's rule for every 64-bit `n` and every declared size:

    an index token denoting the integer v is accepted  <=>  1 <= v <= N,   and it then names the argument of id v-1
    (label v: labels are (1..=N) in declaration order); the preamble's count m is accepted <=> m >= 0 and is read as m.

Queries per site (attack line `read_arg` closure; `read_arg_from_str`; preamble):
  S  some value is accepted although outside 1..=N            C  some value in 1..=N is rejected
  T  an accepted value is mapped to another id than v-1, or the id arithmetic overflows (a panic in debug builds,
     an out-of-range id in release builds)
A `sat` answer is a concrete (v, N); with N small it is replayed through the real reader (tv/src/iccmaread.rs).
An extraction or translation failure is *inconclusive*, never a pass.
"""
import json
import os
import re
import subprocess
import sys
import time

import z3

HERE = os.path.dirname(os.path.abspath(__file__))
ICCMAREAD = os.path.join(HERE, "target", "debug", "iccmaread")
SRC = "/repo/src/io/iccma23_reader.rs"
W = 64
ISIZE_MAX = (1 << 63) - 1


class Untranslatable(Exception):
    pass


class Val:
    def __init__(self, bv, signed):
        self.bv, self.signed = bv, signed


TOK = re.compile(r"\s*(\|\||&&|<=|>=|==|!=|[<>()+\-]|\d+(?:_?[iu]size)?|[A-Za-z_][A-Za-z_0-9]*)")


def tokenize(src):
    out, i = [], 0
    src = src.strip()
    while i < len(src):
        m = TOK.match(src, i)
        if not m:
            raise Untranslatable("cannot tokenize %r at %r" % (src, src[i:i + 10]))
        out.append(m.group(1))
        i = m.end()
    return out


class Expr:
    """Recursive-descent translation of a Rust integer/boolean expression over the given variables.
    Collects the conditions under which an arithmetic step overflows (self.overflow)."""

    def __init__(self, src, env):
        self.toks = tokenize(src)
        self.i = 0
        self.env = env
        self.overflow = []

    def peek(self):
        return self.toks[self.i] if self.i < len(self.toks) else None

    def take(self, t=None):
        x = self.peek()
        if x is None or (t is not None and x != t):
            raise Untranslatable("expected %r, got %r" % (t, x))
        self.i += 1
        return x

    def parse(self):
        v = self.p_or()
        if self.peek() is not None:
            raise Untranslatable("trailing tokens %r" % self.toks[self.i:])
        return v

    def p_or(self):
        v = self.p_and()
        while self.peek() == "||":
            self.take()
            v = z3.Or(self.boolean(v), self.boolean(self.p_and()))
        return v

    def p_and(self):
        v = self.p_cmp()
        while self.peek() == "&&":
            self.take()
            v = z3.And(self.boolean(v), self.boolean(self.p_cmp()))
        return v

    @staticmethod
    def boolean(v):
        if isinstance(v, Val):
            raise Untranslatable("integer used as a condition")
        return v

    def p_cmp(self):
        a = self.p_add()
        op = self.peek()
        if op in ("<", "<=", ">", ">=", "==", "!="):
            self.take()
            b = self.p_add()
            a, b = self.unify(a, b)
            s = a.signed
            return {
                "<": (a.bv < b.bv) if s else z3.ULT(a.bv, b.bv),
                "<=": (a.bv <= b.bv) if s else z3.ULE(a.bv, b.bv),
                ">": (a.bv > b.bv) if s else z3.UGT(a.bv, b.bv),
                ">=": (a.bv >= b.bv) if s else z3.UGE(a.bv, b.bv),
                "==": a.bv == b.bv,
                "!=": a.bv != b.bv,
            }[op]
        return a

    @staticmethod
    def unify(a, b):
        # untyped literals take the type of the other operand; two typed operands must agree (rustc enforces it)
        if not isinstance(a, Val) or not isinstance(b, Val):
            raise Untranslatable("comparison of non-integers")
        if a.signed is None and b.signed is None:
            a.signed = b.signed = True
        elif a.signed is None:
            a.signed = b.signed
        elif b.signed is None:
            b.signed = a.signed
        elif a.signed != b.signed:
            raise Untranslatable("operands of different signedness")
        return a, b

    def p_add(self):
        a = self.p_cast()
        while self.peek() in ("+", "-"):
            op = self.take()
            b = self.p_cast()
            a, b = self.unify(a, b)
            if op == "+":
                self.overflow.append(z3.Not(z3.BVAddNoOverflow(a.bv, b.bv, a.signed)) if not a.signed else
                                     z3.Or(z3.Not(z3.BVAddNoOverflow(a.bv, b.bv, True)), z3.Not(z3.BVAddNoUnderflow(a.bv, b.bv))))
                a = Val(a.bv + b.bv, a.signed)
            else:
                self.overflow.append(z3.ULT(a.bv, b.bv) if not a.signed else
                                     z3.Or(z3.Not(z3.BVSubNoOverflow(a.bv, b.bv)), z3.Not(z3.BVSubNoUnderflow(a.bv, b.bv, True))))
                a = Val(a.bv - b.bv, a.signed)
        return a

    def p_cast(self):
        a = self.p_atom()
        while self.peek() == "as":
            self.take()
            ty = self.take()
            if ty not in ("usize", "isize", "u64", "i64"):
                raise Untranslatable("cast to %s" % ty)
            if not isinstance(a, Val):
                raise Untranslatable("cast of a condition")
            a = Val(a.bv, ty[0] == "i")  # same width: `as` reinterprets the bits
        return a

    def p_atom(self):
        t = self.take()
        if t == "(":
            v = self.p_or()
            self.take(")")
            return v
        m = re.fullmatch(r"(\d+)(?:_?([iu])size)?", t)
        if m:
            return Val(z3.BitVecVal(int(m.group(1)), W), None if m.group(2) is None else m.group(2) == "i")
        if t in self.env:
            v = self.env[t]
            return Val(v.bv, v.signed)
        raise Untranslatable("unknown identifier %r" % t)


def signed_of(ty):
    if ty in ("isize", "i64"):
        return True
    if ty in ("usize", "u64"):
        return False
    raise Untranslatable("parse::<%s>" % ty)


def extract(text):
    """Returns the sites {name: {ty, guard, value, id}} (strings from the current source)."""
    text = re.sub(r"//[^\n]*", "", text)
    sites = {}
    m = re.search(r"let\s+read_arg\s*=\s*\|word:\s*&str,\s*arg_type\|\s*match\s+word\s*\.parse::<(\w+)>\(\)\s*\{\s*"
                  r"Ok\(n\)\s+if\s+(.*?)=>\s*Ok\((.*?)\)\s*,", text, re.S)
    if not m:
        raise Untranslatable("the read_arg closure (parse + guard) was not found in Iccma23Reader::read")
    ids = re.search(r"\.new_attack_by_ids\(\s*(.*?)\s*,\s*(.*?)\s*\)", text, re.S)
    if not ids:
        raise Untranslatable("the call of new_attack_by_ids was not found")
    if not (re.search(r"let\s+attacker\s*=\s*read_arg\(words\[0\]", text) and re.search(r"let\s+attacked\s*=\s*read_arg\(words\[1\]", text)):
        raise Untranslatable("attacker/attacked are not read_arg(words[0]) / read_arg(words[1])")
    if not re.search(r"let\s+n_args\s*=\s*af\.as_ref\(\)\.unwrap\(\)\.n_arguments\(\)\s*;", text):
        raise Untranslatable("n_args of the attack-line site is not af.n_arguments()")
    sites["attacker"] = {"ty": m.group(1), "guard": m.group(2).strip(), "value": m.group(3).strip(), "id": ids.group(1), "var": "attacker"}
    sites["attacked"] = {"ty": m.group(1), "guard": m.group(2).strip(), "value": m.group(3).strip(), "id": ids.group(2), "var": "attacked"}
    m = re.search(r"match\s+arg\s*\.parse::<(\w+)>\(\)\s*\{\s*Ok\(n\)\s+if\s+(.*?)=>\s*\{?\s*"
                  r"Ok\(af\.argument_set\(\)\.get_argument_by_id\((.*?)\)\)", text, re.S)
    if not m:
        raise Untranslatable("read_arg_from_str (parse + guard + get_argument_by_id) was not found")
    sites["query_arg"] = {"ty": m.group(1), "guard": m.group(2).strip().replace("af.n_arguments()", "n_args"), "value": "n",
                          "id": m.group(3).strip(), "var": "n"}
    m = re.search(r"words\[2\]\s*\.parse::<(\w+)>\(\)\s*\{\s*Ok\(n\)\s+if\s+(.*?)=>\s*Some\((.*?)\)\s*,", text, re.S)
    if not m:
        raise Untranslatable("the preamble's count (parse + guard) was not found")
    sites["preamble"] = {"ty": m.group(1), "guard": m.group(2).strip(), "value": m.group(3).strip()}
    if not re.search(r"new_with_labels\(\s*\(1\.\.=n_args\)", text):
        raise Untranslatable("the labels are not (1..=n_args)")
    return sites


def check(sol_timeout, what, f, small=None):
    """Returns (result, model values) — tries the replayable region first."""
    out = []
    for tag, extra in (("small", small), ("full", None)):
        if tag == "small" and small is None:
            continue
        s = z3.Solver()
        s.set("timeout", sol_timeout)
        s.add(f)
        if extra is not None:
            s.add(extra)
        t = time.time()
        r = s.check()
        out.append((tag, str(r), round(time.time() - t, 3), s.model() if r == z3.sat else None, s.reason_unknown() if r == z3.unknown else None))
        if r == z3.sat:
            break
    return out


def run(tier="quick"):
    t0 = time.time()
    res = {"queries": [], "violations": [], "inconclusive": [], "solver_s": 0.0, "sites": {}}
    try:
        sites = extract(open(SRC).read())
    except (Untranslatable, OSError) as e:
        res["inconclusive"].append("ICCMA'23 guard extraction failed: %s" % e)
        return res
    res["sites"] = sites
    n = z3.BitVec("n", W)
    N = z3.BitVec("n_args", W)
    timeout = 60000 if tier == "quick" else 600000
    dom_N = z3.And(N >= 0)  # the preamble only yields counts in 0..=isize::MAX (checked by the preamble site itself)
    small = z3.ULE(N, 6)
    for name, st in sites.items():
        try:
            sg = signed_of(st["ty"])
            env = {"n": Val(n, sg), "n_args": Val(N, False)}
            ge = Expr(st["guard"], env)
            guard = Expr.boolean(ge.parse())
            ve = Expr(st["value"], env)
            value = ve.parse()
            if not isinstance(value, Val):
                raise Untranslatable("value is not an integer")
            if name == "preamble":
                spec = (n >= 0) if sg else z3.BoolVal(True)
                qs = [("S", "a negative count is accepted", z3.And(guard, z3.Not(spec))),
                      ("C", "a count >= 0 is rejected", z3.And(spec, z3.Not(guard))),
                      ("T", "an accepted count is read as another number (or above isize::MAX)", z3.And(guard, z3.Or(value.bv != n, value.bv < 0)))]
                sm = None
            else:
                # the integer the token denotes is n read with the signedness of the parse type
                spec = z3.And(n >= 1, n <= N) if sg else z3.And(z3.UGE(n, 1), z3.ULE(n, N))
                ie = Expr(st["id"], {st["var"]: Val(value.bv, value.signed if value.signed is not None else False), "n_args": Val(N, False)})
                idv = ie.parse()
                if not isinstance(idv, Val):
                    raise Untranslatable("id is not an integer")
                ovf = z3.Or(ge.overflow + ve.overflow + ie.overflow) if (ge.overflow + ve.overflow + ie.overflow) else z3.BoolVal(False)
                qs = [("S", "an index outside 1..=N is accepted", z3.And(dom_N, guard, z3.Not(spec))),
                      ("C", "an index in 1..=N is rejected", z3.And(dom_N, spec, z3.Not(guard))),
                      ("T", "an accepted index is not mapped to the id index-1 (or the id arithmetic overflows)",
                       z3.And(dom_N, guard, z3.Or(ovf, idv.bv != n - 1, z3.UGE(idv.bv, N))))]
                sm = small
        except Untranslatable as e:
            res["inconclusive"].append("ICCMA'23 site %s: %s" % (name, e))
            continue
        # vacuity witness: the site accepts something (must be sat), and the encoding agrees with the real reader on
        # concrete values (translator validation)
        if name != "preamble":
            w = z3.Solver()
            w.add(dom_N, guard, spec, small)
            wr = str(w.check())
            res["queries"].append({"query": "I-%s-W" % name, "what": "witness: some index is accepted (expected sat)", "result": wr, "solver_s": 0.0})
            if wr != "sat":
                res["inconclusive"].append("I-%s-W: the encoded guard accepts nothing (vacuous encoding)" % name)
            for cv, cN in ((1, 2), (2, 2), (0, 2), (3, 2), (-1, 2), (1, 0), (5, 5)):
                if cv < 0 and not sg:
                    continue
                enc = z3.simplify(z3.substitute(z3.And(guard, z3.Not(ovf)), (n, z3.BitVecVal(cv, W)), (N, z3.BitVecVal(cN, W))))
                vv = {"site": name, "v": cv, "N": cN, "replayable": True}
                try:
                    real = real_accepts(vv)
                except Exception as e:  # noqa
                    res["inconclusive"].append("translator validation could not run the real reader: %s" % e)
                    break
                res["validated"] = res.get("validated", 0) + 1
                if real is not None and z3.is_true(enc) != real:
                    res["inconclusive"].append("encoding of site %s disagrees with the real reader on v=%d N=%d (encoding %s, real %s)" % (name, cv, cN, enc, real))
        for tag, what, f in qs:
            for region, r, dt, model, why in check(timeout, what, f, sm):
                res["solver_s"] += dt
                entry = {"query": "I-%s-%s" % (name, tag), "region": region, "what": what, "result": r, "solver_s": dt}
                if r == "sat":
                    raw = model.eval(n, model_completion=True).as_long()
                    v = raw - (1 << W) if (sg and raw >= (1 << (W - 1))) else raw
                    Nv = model.eval(N, model_completion=True).as_long()
                    entry.update({"v": v, "N": Nv})
                    res["violations"].append({"query": entry["query"], "site": name, "kind": tag, "what": what, "v": v, "N": Nv,
                                              "replayable": name == "preamble" and 0 <= v <= 64 or (name != "preamble" and Nv <= 64)})
                elif r == "unknown":
                    res["inconclusive"].append("%s: %s" % (entry["query"], why))
                res["queries"].append(entry)
    res["wall_s"] = round(time.time() - t0, 2)
    return res


def real_accepts(v):
    """True/False: the real reader accepts the index (None: it panicked)."""
    site, val, N = v["site"], v["v"], v["N"]
    if site == "query_arg":
        data, argv = "p af %d\n" % N, [str(val)]
    else:
        other = "1" if N >= 1 else str(val)
        data = "p af %d\n%s\n" % (N, ("%d %s" % (val, other)) if site == "attacker" else ("%s %d" % (other, val)))
        argv = []
    r = subprocess.run([ICCMAREAD] + argv, input=data.encode(), capture_output=True, timeout=60)
    out = r.stdout.decode("utf-8", "replace").strip()
    if out.startswith("PANIC") or r.returncode != 0:
        return None
    return ("ARG=OK" in out) if site == "query_arg" else out.startswith("OK")


def replay(v):
    """Replays (v, N) through the real reader; returns (reproduced, text)."""
    site, val, N = v["site"], v["v"], v["N"]
    if not v.get("replayable"):
        return False, "not replayable (declared size %s too large to build)" % N
    if site == "preamble":
        data, argv, N = "p af %d\n" % val, [], val
        spec = val >= 0
    elif site == "query_arg":
        data, argv = "p af %d\n" % N, [str(val)]
        spec = 1 <= val <= N
    else:
        other = "1" if N >= 1 else str(val)
        data = "p af %d\n%s\n" % (N, ("%d %s" % (val, other)) if site == "attacker" else ("%s %d" % (other, val)))
        argv = []
        spec = 1 <= val <= N
    r = subprocess.run([ICCMAREAD] + argv, input=data.encode(), capture_output=True, timeout=60)
    out = r.stdout.decode("utf-8", "replace").strip()
    text = "the real reader answers %r for the file %r%s" % (out, data, (" and the argument %r" % argv[0]) if argv else "")
    if out.startswith("PANIC") or r.returncode != 0:
        return True, text + " (panic)"
    if site == "preamble":
        good = out.startswith("OK") and ("args=%s " % json.dumps(list(range(1, val + 1))).replace('"', "")) in out + " "
        return (good != spec) if spec else out.startswith("OK"), text
    if site == "query_arg":
        good = ("ARG=OK(%d)" % val) in out
        return (not good) if spec else ("ARG=OK" in out), text
    exp = ("%d->%s" % (val, other)) if site == "attacker" else ("%s->%d" % (other, val))
    good = out.startswith("OK") and exp in out
    return (not good) if spec else out.startswith("OK"), text


if __name__ == "__main__":
    r = run(sys.argv[1] if len(sys.argv) > 1 else "quick")
    print(json.dumps(r, indent=1, default=str))
    for v in r["violations"]:
        print(replay(v))
