//! apxread: reads an Aspartix instance on stdin with the real AspartixReader and prints how it was read.
use crustabri::io::{AspartixReader, InstanceReader};

fn main() {
    let reader = AspartixReader::default();
    match reader.read(&mut std::io::stdin()) {
        Ok(af) => {
            let args: Vec<String> = af.argument_set().iter().map(|a| a.label().clone()).collect();
            let atts: Vec<String> =
                af.iter_attacks().map(|a| format!("{}->{}", a.attacker().label(), a.attacked().label())).collect();
            println!("OK args={:?} attacks={:?}", args, atts);
        }
        Err(e) => println!("ERR {:#}", e),
    }
}
