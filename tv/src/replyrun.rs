//! replyrun <n_vars>: feeds the reply given on stdin to the real BufferedSatSolver (a solver over n_vars variables) and
//! prints how it was interpreted: `SAT <values>` (1/0/? per variable), `UNSAT`, `UNKNOWN` or `PANIC`.
use crustabri::sat::{BufferedSatSolver, Literal, SatSolver, SolvingResult};
use std::io::Read;

fn main() {
    let n_vars: usize = std::env::args().nth(1).and_then(|s| s.parse().ok()).unwrap_or(2);
    let mut reply = Vec::new();
    std::io::stdin().read_to_end(&mut reply).unwrap();
    std::panic::set_hook(Box::new(|_| {}));
    let r = std::panic::catch_unwind(move || {
        let mut s = BufferedSatSolver::new(Box::new(move |_| Box::new(std::io::Cursor::new(reply.clone())) as Box<dyn Read>));
        // a tautology over all variables, so that n_vars() is as requested and every reply is a possible verdict
        s.add_clause((1..=n_vars as isize).flat_map(|v| [Literal::from(v), Literal::from(-v)]).collect());
        match s.solve() {
            SolvingResult::Satisfiable(a) => {
                let vals: String = (1..=n_vars).map(|v| match a.value_of(v) {
                    Some(true) => '1',
                    Some(false) => '0',
                    None => '?',
                }).collect();
                format!("SAT {}", vals)
            }
            SolvingResult::Unsatisfiable => "UNSAT".to_string(),
            SolvingResult::Unknown => "UNKNOWN".to_string(),
        }
    });
    println!("{}", r.unwrap_or_else(|_| "PANIC".to_string()));
}
