//! cnfdump: runs the *real* crustabri encoders (linked from /repo's working tree) on frameworks given on stdin and
//! prints, as one JSON object per (framework, encoder, mode), everything the encoder handed to the SAT solver.
//!
//! Input lines:
//!   `af <tag> <n> <i>-<j> <i>-<j> ...`            framework with labels 0..n-1, attacks by ids in the given order (duplicates kept)
//!   `cc <tag> <n> <i>-<j> ...`                    same, but every connected component extracted by the real
//!                                                 ConnectedComponentsComputer is dumped instead of the framework
//!   `ext <encoder> <mode> <n> <i>-<j>,... <assignment as string of 0/1/x>`   replay: prints the extension the real
//!                                                 assignment_to_extension returns for that assignment
use crustabri::aa::{AAFramework, ArgumentSet};
use crustabri::encodings::{
    aux_var_constraints_encoder, exp_constraints_encoder, ConstraintsEncoder, DefaultStableConstraintsEncoder,
    HybridCompleteConstraintsEncoder,
};
use crustabri::sat::{Literal, SatSolver, SolvingListener, SolvingResult};
use crustabri::verif_hooks as hooks;
use std::io::{BufRead, Write};

#[derive(Default)]
struct Rec {
    clauses: Vec<Vec<isize>>,
    reserves: Vec<usize>,
    nv: usize,
    solves: usize,
}

impl SatSolver for Rec {
    fn add_clause(&mut self, cl: Vec<Literal>) {
        let c: Vec<isize> = cl.iter().map(|l| isize::from(*l)).collect();
        for l in &c {
            self.nv = self.nv.max(l.unsigned_abs());
        }
        self.clauses.push(c);
    }
    fn solve(&mut self) -> SolvingResult {
        self.solves += 1;
        SolvingResult::Unknown
    }
    fn solve_under_assumptions(&mut self, _a: &[Literal]) -> SolvingResult {
        self.solves += 1;
        SolvingResult::Unknown
    }
    fn n_vars(&self) -> usize {
        self.nv
    }
    fn add_listener(&mut self, _l: Box<dyn SolvingListener>) {}
    fn reserve(&mut self, n: usize) {
        self.reserves.push(n);
        self.nv = self.nv.max(n);
    }
}

pub const ENCODERS: [&str; 7] = [
    "aux_cf", "aux_adm", "aux_co", "exp_cf", "exp_co", "hybrid_co", "stable",
];

fn encoder(name: &str) -> Box<dyn ConstraintsEncoder<usize>> {
    match name {
        "aux_cf" => Box::new(aux_var_constraints_encoder::new_for_conflict_freeness()),
        "aux_adm" => Box::new(aux_var_constraints_encoder::new_for_admissibility()),
        "aux_co" => Box::new(aux_var_constraints_encoder::new_for_complete_semantics()),
        "exp_cf" => Box::new(exp_constraints_encoder::new_for_conflict_freeness()),
        "exp_co" => Box::new(exp_constraints_encoder::new_for_complete_semantics()),
        "hybrid_co" => Box::new(HybridCompleteConstraintsEncoder::default()),
        "stable" => Box::new(DefaultStableConstraintsEncoder::default()),
        _ => panic!("unknown encoder {}", name),
    }
}

fn build(n: usize, attacks: &[(usize, usize)]) -> AAFramework<usize> {
    let labels: Vec<usize> = (0..n).collect();
    let mut af = AAFramework::new_with_argument_set(ArgumentSet::new_with_labels(&labels));
    for (i, j) in attacks {
        hooks::new_attack_by_ids(&mut af, *i, *j).unwrap();
    }
    af
}

fn parse_attacks(words: &[&str]) -> Vec<(usize, usize)> {
    words
        .iter()
        .filter(|w| !w.is_empty())
        .map(|w| {
            let (a, b) = w.split_once('-').expect("attack i-j");
            (a.parse().unwrap(), b.parse().unwrap())
        })
        .collect()
}

fn json_list<T: std::fmt::Display>(v: &[T]) -> String {
    format!("[{}]", v.iter().map(|x| x.to_string()).collect::<Vec<_>>().join(","))
}

fn ext_of(enc: &dyn ConstraintsEncoder<usize>, af: &AAFramework<usize>, a: Vec<Option<bool>>) -> Vec<usize> {
    let asg = hooks::new_assignment(a);
    enc.assignment_to_extension(&asg, af).iter().map(|x| x.id()).collect()
}

fn dump(out: &mut impl Write, tag: &str, af: &AAFramework<usize>) {
    let n = af.n_arguments();
    // the framework as the encoder sees it (ids), attacks in iteration order
    let atts: Vec<String> =
        af.iter_attacks().map(|a| format!("[{},{}]", a.attacker().id(), a.attacked().id())).collect();
    let labels: Vec<usize> = af.argument_set().iter().map(|a| *a.label()).collect();
    let ids: Vec<usize> = af.argument_set().iter().map(|a| a.id()).collect();
    for name in ENCODERS {
        for range in [false, true] {
            if range && name == "stable" {
                continue;
            }
            let enc = encoder(name);
            let mut rec = Rec::default();
            if range {
                enc.encode_constraints_and_range(af, &mut rec);
            } else {
                enc.encode_constraints(af, &mut rec);
            }
            // the solvers reuse one encoder object for every query and every connected component: the same encoder
            // object must emit the same CNF when asked again (second emission into a fresh solver)
            let mut rec2 = Rec::default();
            if range {
                enc.encode_constraints_and_range(af, &mut rec2);
            } else {
                enc.encode_constraints(af, &mut rec2);
            }
            let reuse_same = rec2.clauses == rec.clauses && rec2.reserves == rec.reserves;
            let clauses2: Vec<String> = if reuse_same { vec![] } else { rec2.clauses.iter().map(|c| json_list(c)).collect() };
            let lits: Vec<isize> =
                af.argument_set().iter().map(|a| isize::from(enc.arg_to_lit(a))).collect();
            let frv: isize = if name == "stable" { -1 } else { enc.first_range_var(n) as isize };
            // var -> argument map of assignment_to_extension, observed with one-hot assignments over an
            // assignment a little longer than n_vars (selector variables are appended by the solvers)
            let width = rec.nv + 2;
            let mut onehot: Vec<String> = vec![];
            for v in 0..width {
                let mut a = vec![Some(false); width];
                a[v] = Some(true);
                onehot.push(json_list(&ext_of(enc.as_ref(), af, a)));
            }
            let all_true = ext_of(enc.as_ref(), af, vec![Some(true); width]);
            let all_none = ext_of(enc.as_ref(), af, vec![None; width]);
            let all_false = ext_of(enc.as_ref(), af, vec![Some(false); width]);
            let clauses: Vec<String> = rec.clauses.iter().map(|c| json_list(c)).collect();
            writeln!(
                out,
                "{{\"tag\":\"{}\",\"reuse_same\":{},\"clauses_second\":[{}],\"n_vars_second\":{},\"encoder\":\"{}\",\"range\":{},\"n\":{},\"ids\":{},\"labels\":{},\"attacks\":[{}],\"n_vars\":{},\"reserves\":{},\"solves\":{},\"clauses\":[{}],\"arg_lits\":{},\"first_range_var\":{},\"onehot\":[{}],\"all_true\":{},\"all_none\":{},\"all_false\":{}}}",
                tag, reuse_same, clauses2.join(","), rec2.nv, name, range, n, json_list(&ids), json_list(&labels), atts.join(","), rec.nv,
                json_list(&rec.reserves), rec.solves, clauses.join(","), json_list(&lits), frv,
                onehot.join(","), json_list(&all_true), json_list(&all_none), json_list(&all_false)
            )
            .unwrap();
        }
    }
}

fn main() {
    let stdin = std::io::stdin();
    let stdout = std::io::stdout();
    let mut out = std::io::BufWriter::new(stdout.lock());
    for line in stdin.lock().lines() {
        let line = line.unwrap();
        let w: Vec<&str> = line.split_whitespace().collect();
        if w.is_empty() {
            continue;
        }
        match w[0] {
            "af" => {
                let n: usize = w[2].parse().unwrap();
                let af = build(n, &parse_attacks(&w[3..]));
                dump(&mut out, w[1], &af);
            }
            "cc" => {
                let n: usize = w[2].parse().unwrap();
                let af = build(n, &parse_attacks(&w[3..]));
                let mut k = 0;
                for cc in hooks::ConnectedComponentsComputer::iter_connected_components(&af) {
                    dump(&mut out, &format!("{}/cc{}", w[1], k), &cc);
                    k += 1;
                }
            }
            "ext" => {
                let enc = encoder(w[1]);
                let n: usize = w[3].parse().unwrap();
                let atts: Vec<&str> = w[4].split(',').collect();
                let af = build(n, &parse_attacks(&atts));
                let a: Vec<Option<bool>> = w[5]
                    .chars()
                    .map(|c| match c {
                        '1' => Some(true),
                        '0' => Some(false),
                        _ => None,
                    })
                    .collect();
                writeln!(out, "{}", json_list(&ext_of(enc.as_ref(), &af, a))).unwrap();
            }
            _ => panic!("unknown command"),
        }
    }
}
