//! iccmaread: reads an ICCMA'23 instance on stdin with the real Iccma23Reader and prints how it was read; with an
//! argument, also resolves it with the real `read_arg_from_str`. A panic of the reader is reported as `PANIC`.
use crustabri::io::{Iccma23Reader, InstanceReader};
use std::io::Read;

fn main() {
    let mut buf = Vec::new();
    std::io::stdin().read_to_end(&mut buf).unwrap();
    let tok = std::env::args().nth(1);
    std::panic::set_hook(Box::new(|_| {}));
    let r = std::panic::catch_unwind(move || {
        let reader = Iccma23Reader::default();
        match reader.read(&mut &buf[..]) {
            Ok(af) => {
                let args: Vec<usize> = af.argument_set().iter().map(|a| *a.label()).collect();
                let atts: Vec<String> =
                    af.iter_attacks().map(|a| format!("{}->{}", a.attacker().label(), a.attacked().label())).collect();
                let mut s = format!("OK args={:?} attacks={:?}", args, atts);
                if let Some(t) = tok {
                    match reader.read_arg_from_str(&af, &t) {
                        Ok(a) => s.push_str(&format!(" ARG=OK({})", a.label())),
                        Err(_) => s.push_str(" ARG=ERR"),
                    }
                }
                s
            }
            Err(e) => format!("ERR {:#}", e),
        }
    });
    match r {
        Ok(s) => println!("{}", s),
        Err(_) => println!("PANIC"),
    }
}
