//! eqdump: runs the real EquivalencyComputer on frameworks given on stdin (`af <tag> <n> i-j ...`) and prints, as one
//! JSON object per framework, the classes and both mappings.
use crustabri::aa::{AAFramework, ArgumentSet};
use crustabri::utils::EquivalencyComputer;
use crustabri::verif_hooks as hooks;
use std::io::{BufRead, Write};

fn main() {
    let stdin = std::io::stdin();
    let stdout = std::io::stdout();
    let mut out = std::io::BufWriter::new(stdout.lock());
    for line in stdin.lock().lines() {
        let line = line.unwrap();
        let w: Vec<&str> = line.split_whitespace().collect();
        if w.len() < 3 || w[0] != "af" {
            continue;
        }
        let n: usize = w[2].parse().unwrap();
        let labels: Vec<usize> = (0..n).collect();
        let mut af = AAFramework::new_with_argument_set(ArgumentSet::new_with_labels(&labels));
        let mut atts = vec![];
        for a in &w[3..] {
            let (i, j) = a.split_once('-').unwrap();
            let (i, j): (usize, usize) = (i.parse().unwrap(), j.parse().unwrap());
            hooks::new_attack_by_ids(&mut af, i, j).unwrap();
            atts.push(format!("[{},{}]", i, j));
        }
        let r = std::panic::catch_unwind(|| {
            let ec = EquivalencyComputer::new(&af);
            let red = ec.reduced_af();
            let n_red = red.n_arguments();
            let init_to_red: Vec<String> = af
                .argument_set()
                .iter()
                .map(|a| ec.init_to_reduced_arg(a).id().to_string())
                .collect();
            let red_to_init: Vec<String> = red
                .argument_set()
                .iter()
                .map(|r| {
                    format!(
                        "[{}]",
                        ec.reduced_arg_to_init_args(r).iter().map(|a| a.id().to_string()).collect::<Vec<_>>().join(",")
                    )
                })
                .collect();
            let red_labels: Vec<String> = red.argument_set().iter().map(|r| r.label().to_string()).collect();
            let red_atts: Vec<String> =
                red.iter_attacks().map(|a| format!("[{},{}]", a.attacker().id(), a.attacked().id())).collect();
            format!(
                "\"ok\":true,\"n_reduced\":{},\"init_to_reduced\":[{}],\"reduced_to_init\":[{}],\"reduced_labels\":[{}],\"reduced_attacks\":[{}]",
                n_red,
                init_to_red.join(","),
                red_to_init.join(","),
                red_labels.join(","),
                red_atts.join(",")
            )
        });
        let body = match r {
            Ok(s) => s,
            Err(_) => "\"ok\":false".to_string(),
        };
        writeln!(out, "{{\"tag\":\"{}\",\"n\":{},\"attacks\":[{}],{}}}", w[1], n, atts.join(","), body).unwrap();
    }
}
