#!/usr/bin/env python3-vt
"""C16 (reply clause) / C17 (truncated model): the verdict table of the real reply parser, decided by z3.

CBMC does not get through `BufferedSatSolver::solve_under_assumptions` on symbolic reply bytes (DESIGN.md section 2).
What the parser *reports* is however decided at its end by a small table over three facts collected while reading:

    status               (None / Some(true) / Some(false): which status line was seen)
    assignment_line_seen (a value line was read)
    assignment_line_end  (the terminating `0` of the model was read)

The final `match status { ... }` is re-extracted from /repo's current source on every run and translated to a z3
function of (status, seen, end); the places where the two flags are set are located in the source (a miss is
*inconclusive*).  z3 then decides over all combinations (with end => seen, the only ones replies can produce):

  R1  a model is reported although the reply has no `s SATISFIABLE` line, no value line, or no terminating 0 (truncated)
  R2  UNSATISFIABLE is reported without an `s UNSATISFIABLE` line
  R3  a complete reply (status + terminated model, or `s UNSATISFIABLE`) is not reported as such
A `sat` answer is turned into a concrete reply and replayed through the real BufferedSatSolver (tv/src/replyrun.rs).
"""
import json
import os
import re
import subprocess
import sys
import time

import z3

HERE = os.path.dirname(os.path.abspath(__file__))
REPLYRUN = os.path.join(HERE, "target", "debug", "replyrun")
SRC = "/repo/src/sat/buffered_sat_solver.rs"

NONE, STRUE, SFALSE = 0, 1, 2
SAT, UNSAT, UNKNOWN = 0, 1, 2
VARIANT = {"Satisfiable": SAT, "Unsatisfiable": UNSAT, "Unknown": UNKNOWN}


class Untranslatable(Exception):
    pass


def matching(text, i, open_c="{", close_c="}"):
    depth = 0
    for j in range(i, len(text)):
        if text[j] == open_c:
            depth += 1
        elif text[j] == close_c:
            depth -= 1
            if depth == 0:
                return j
    raise Untranslatable("unbalanced %s" % open_c)


def cond_to_z3(src, env):
    """boolean expression over the flags: identifiers, !, &&, ||, parentheses"""
    toks = re.findall(r"\|\||&&|!|\(|\)|[A-Za-z_][A-Za-z_0-9]*", src)
    if "".join(toks) != re.sub(r"\s+", "", src):
        raise Untranslatable("condition %r outside the subset" % src)
    pos = [0]

    def peek():
        return toks[pos[0]] if pos[0] < len(toks) else None

    def take():
        pos[0] += 1
        return toks[pos[0] - 1]

    def p_or():
        v = p_and()
        while peek() == "||":
            take()
            v = z3.Or(v, p_and())
        return v

    def p_and():
        v = p_not()
        while peek() == "&&":
            take()
            v = z3.And(v, p_not())
        return v

    def p_not():
        if peek() == "!":
            take()
            return z3.Not(p_not())
        t = take()
        if t == "(":
            v = p_or()
            if take() != ")":
                raise Untranslatable("missing )")
            return v
        if t in env:
            return env[t]
        raise Untranslatable("unknown flag %r" % t)

    v = p_or()
    if peek() is not None:
        raise Untranslatable("trailing tokens in %r" % src)
    return v


def body_to_z3(body, env):
    """`SolvingResult::X(..)` | `{ body }` | `if c { body } else { body }`  ->  z3 Int term"""
    body = body.strip().rstrip(",").strip()
    while body.startswith("{") and matching(body, 0) == len(body) - 1:
        body = body[1:-1].strip()
    m = re.match(r"if\s+(.*?)\s*\{", body, re.S)
    if m:
        i = m.end() - 1
        j = matching(body, i)
        rest = body[j + 1:].strip()
        if not rest.startswith("else"):
            raise Untranslatable("if without else in the verdict table")
        rest = rest[4:].strip()
        return z3.If(cond_to_z3(m.group(1), env), body_to_z3(body[i:j + 1], env), body_to_z3(rest, env))
    m = re.fullmatch(r"SolvingResult::(\w+)(\(.*\))?", body, re.S)
    if m and m.group(1) in VARIANT:
        return z3.IntVal(VARIANT[m.group(1)])
    raise Untranslatable("verdict %r outside the subset" % body[:60])


def extract(text):
    text = re.sub(r"//[^\n]*", "", text)
    m = re.search(r"let\s+solving_result\s*=\s*match\s+status\s*\{", text)
    if not m:
        raise Untranslatable("`let solving_result = match status {` not found")
    i = m.end() - 1
    j = matching(text, i)
    inner = text[i + 1:j]
    arms, k = {}, 0
    while True:
        am = re.compile(r"\s*(Some\(true\)|Some\(false\)|None|_)\s*=>\s*").match(inner, k)
        if not am:
            break
        b = am.end()
        if inner[b] == "{":
            e = matching(inner, b) + 1
        else:
            e = inner.index(",", b)
        arms[am.group(1)] = inner[b:e]
        k = e
        while k < len(inner) and inner[k] in ", \n\t":
            k += 1
    if inner[k:].strip():
        raise Untranslatable("unparsed rest of the verdict table: %r" % inner[k:k + 40])
    # where the facts are collected
    flags = {}
    vb = re.search(r'else\s+if\s+([^{}]*?)\{\s*assignment_line_seen\s*=\s*true\s*;', text, re.S)
    if not vb:
        raise Untranslatable("assignment_line_seen is not set at the head of a branch of the line classification")
    flags["assignment_line_seen"] = vb.group(1).strip()
    if not re.search(r"if\s+n\s*==\s*0\s*\{\s*if\s+assignment_line_end\s*\{\s*panic!\([^;]*;?\s*\}\s*else\s*\{\s*assignment_line_end\s*=\s*true\s*;", text, re.S):
        raise Untranslatable("assignment_line_end is not set exactly when the literal 0 is read")
    flags["assignment_line_end"] = "n == 0"
    for lit, val in (('"s SATISFIABLE"', "true"), ('"s UNSATISFIABLE"', "false")):
        if not re.search(r"line\s*==\s*%s\s*\{\s*set_status\(%s\)" % (re.escape(lit), val), text):
            raise Untranslatable("status %s is not set by the line %s" % (val, lit))
    return arms, flags


def str_cond(src, line):
    """evaluates a Rust string predicate over `line` concretely: == != starts_with is_empty ! && || ( )"""
    toks = re.findall(r'\|\||&&|!=|==|!|\(|\)|line\.starts_with\("(?:[^"\\]|\\.)*"\)|line\.is_empty\(\)|line|"(?:[^"\\]|\\.)*"', src)
    if "".join(toks) != re.sub(r"\s+", "", src.replace('" "', '"\x00"')).replace("\x00", " ") and re.sub(r"\s+", "", "".join(toks)) != re.sub(r"\s+", "", src):
        raise Untranslatable("line predicate %r outside the subset" % src)
    pos = [0]

    def peek():
        return toks[pos[0]] if pos[0] < len(toks) else None

    def take():
        pos[0] += 1
        return toks[pos[0] - 1]

    def lit(t):
        return json.loads(t)

    def p_or():
        v = p_and()
        while peek() == "||":
            take()
            w = p_and()
            v = v or w
        return v

    def p_and():
        v = p_not()
        while peek() == "&&":
            take()
            w = p_not()
            v = v and w
        return v

    def p_not():
        t = take()
        if t == "!":
            return not p_not()
        if t == "(":
            v = p_or()
            if take() != ")":
                raise Untranslatable("missing )")
            return v
        if t.startswith("line.starts_with("):
            return line.startswith(lit(t[len("line.starts_with("):-1]))
        if t == "line.is_empty()":
            return line == ""
        if t == "line":
            op = take()
            rhs = lit(take())
            if op == "==":
                return line == rhs
            if op == "!=":
                return line != rhs
        raise Untranslatable("line predicate token %r" % t)

    v = p_or()
    if peek() is not None:
        raise Untranslatable("trailing tokens in %r" % src)
    return v


def extract_chain(text):
    """[(condition source, body source)] of the `if line == "s SATISFIABLE" ... else if ...` classification chain"""
    text = re.sub(r"//[^\n]*", "", text)
    m = re.search(r'if\s+line\s*==\s*"s SATISFIABLE"\s*\{', text)
    if not m:
        raise Untranslatable("the line classification chain was not found")
    chain, k = [], m.start()
    while True:
        cm = re.compile(r"\s*if\s+([^{}]*?)\{").match(text, k)
        if not cm:
            raise Untranslatable("unparsed branch of the classification chain")
        b = cm.end() - 1
        e = matching(text, b)
        chain.append((cm.group(1).strip(), text[b + 1:e]))
        em = re.compile(r"\s*else\s+(?=if)").match(text, e + 1)
        if not em:
            if re.compile(r"\s*else\s*\{").match(text, e + 1):
                raise Untranslatable("final else branch in the classification chain")
            break
        k = em.end()
    return chain


GARBAGE = "segmentation fault"
FIRST = [("s SATISFIABLE", "sat"), ("s UNSATISFIABLE", "unsat"), ("v 1 -2 0", "value"), ("c comment", "comment"), ("", "empty")]


def early_exit_queries(text, verdict, status, seen, end, res):
    """Every line of the reply is examined: after any first line, a following garbage line must make the call abort
    (or the verdict be Unknown).  Branch taken by each representative line: conditions evaluated concretely; whether a
    branch leaves the loop early (`break` / `return`): from its body; z3 decides over the first line's class."""
    chain = extract_chain(text)

    def branch_of(line):
        for i, (c, _b) in enumerate(chain):
            if str_cond(c, line):
                return i
        return None

    gb = branch_of(GARBAGE)
    garbage_aborts = gb is not None and "panic!" in chain[gb][1]
    exits = [bool(re.search(r"\b(break|return)\b", re.sub(r'"(?:[^"\\]|\\.)*"', '""', b))) for _c, b in chain]
    cls = z3.Int("first_line")
    cons, examined = [], z3.BoolVal(True)
    for k, (line, kind) in enumerate(FIRST):
        bi = branch_of(line)
        ex = z3.BoolVal(not (bi is not None and exits[bi]))
        examined = z3.If(cls == k, ex, examined)
        cons.append(z3.Implies(cls == k, z3.And(status == {"sat": STRUE, "unsat": SFALSE}.get(kind, NONE),
                                                 seen == (kind == "value"), end == (kind == "value"))))
    res["chain"] = [{"condition": c, "leaves_the_loop": x} for (c, _b), x in zip(chain, exits)]
    f = z3.And(cls >= 0, cls < len(FIRST), *cons)
    bad = z3.And(f, z3.Or(z3.Not(examined), z3.BoolVal(not garbage_aborts)), verdict != UNKNOWN)
    s = z3.Solver()
    s.add(bad)
    t = time.time()
    r = s.check()
    dt = round(time.time() - t, 3)
    res["solver_s"] += dt
    entry = {"query": "reply-E", "what": "a garbage line after the first line of the reply is not examined (or tolerated) and a verdict is reported", "result": str(r), "solver_s": dt}
    if r == z3.sat:
        k = s.model().eval(cls, model_completion=True).as_long()
        v = {"query": "reply-E", "what": entry["what"], "status": "garbage-after", "seen": False, "end": False,
             "reply": FIRST[k][0] + "\n" + GARBAGE + "\n"}
        entry.update(v)
        res["violations"].append(v)
    elif r == z3.unknown:
        res["inconclusive"].append("reply-E: " + s.reason_unknown())
    res["queries"].append(entry)
    w = z3.Solver()
    w.add(f, examined)
    if w.check() != z3.sat:
        res["inconclusive"].append("reply-E: no first line leaves the rest of the reply examined (vacuous encoding)")


def run(tier="quick"):
    t0 = time.time()
    res = {"queries": [], "violations": [], "inconclusive": [], "solver_s": 0.0}
    try:
        arms, flags = extract(open(SRC).read())
        status = z3.Int("status")
        seen, end = z3.Bool("assignment_line_seen"), z3.Bool("assignment_line_end")
        env = {"assignment_line_seen": seen, "assignment_line_end": end}
        verdict = None
        default = body_to_z3(arms["_"], env) if "_" in arms else None
        for pat, code in (("None", NONE), ("Some(false)", SFALSE), ("Some(true)", STRUE)):
            if pat in arms:
                b = body_to_z3(arms[pat], env)
            elif default is not None:
                b = default
            else:
                raise Untranslatable("no arm for %s" % pat)
            verdict = b if verdict is None else z3.If(status == code, b, verdict)
    except (Untranslatable, OSError, ValueError) as e:
        res["inconclusive"].append("reply verdict table extraction failed: %s" % e)
        return res
    res["table"] = {k: re.sub(r"\s+", " ", v) for k, v in arms.items()}
    res["flags"] = flags
    dom = z3.And(status >= 0, status <= 2, z3.Implies(end, seen))
    complete_model = z3.And(status == STRUE, seen, end)
    qs = [
        ("R1", "a model is reported although the reply lacks the status line, a value line or the terminating 0 (truncated model)",
         z3.And(verdict == SAT, z3.Not(complete_model))),
        ("R2", "UNSATISFIABLE is reported without an `s UNSATISFIABLE` line", z3.And(verdict == UNSAT, status != SFALSE)),
        ("R3", "a complete reply is not reported as such", z3.Or(z3.And(complete_model, verdict != SAT), z3.And(status == SFALSE, verdict != UNSAT))),
        ("W", "witness: some reply is reported as a model (expected sat)", verdict == SAT),
    ]
    for tag, what, f in qs:
        s = z3.Solver()
        s.set("timeout", 60000)
        s.add(dom, f)
        t = time.time()
        r = s.check()
        dt = round(time.time() - t, 3)
        res["solver_s"] += dt
        entry = {"query": "reply-" + tag, "what": what, "result": str(r), "solver_s": dt}
        if tag == "W":
            if r != z3.sat:
                res["inconclusive"].append("reply-W: the encoded table never reports a model (vacuous encoding)")
        elif r == z3.sat:
            m = s.model()
            st = m.eval(status, model_completion=True).as_long()
            v = {"query": entry["query"], "what": what, "status": ["none", "sat", "unsat"][st],
                 "seen": z3.is_true(m.eval(seen, model_completion=True)), "end": z3.is_true(m.eval(end, model_completion=True))}
            v["reply"] = reply_of(v)
            entry.update(v)
            res["violations"].append(v)
        elif r == z3.unknown:
            res["inconclusive"].append("%s: %s" % (entry["query"], s.reason_unknown()))
        res["queries"].append(entry)
    try:
        early_exit_queries(open(SRC).read(), verdict, status, seen, end, res)
    except (Untranslatable, ValueError) as e:
        res["inconclusive"].append("reply classification chain: %s" % e)
    # translator validation: the table against the real parser on one concrete reply per combination
    res["validated"] = 0
    for st in ("none", "sat", "unsat"):
        for sn, en in ((False, False), (True, False), (True, True)):
            v = {"status": st, "seen": sn, "end": en}
            try:
                real = real_verdict(reply_of(v))
            except Exception as e:  # noqa
                res["inconclusive"].append("translator validation could not run the real parser: %s" % e)
                break
            enc = z3.simplify(z3.substitute(verdict, (status, z3.IntVal(["none", "sat", "unsat"].index(st))), (seen, z3.BoolVal(sn)), (end, z3.BoolVal(en))))
            res["validated"] += 1
            if real in ("SAT", "UNSAT", "UNKNOWN") and ["SAT", "UNSAT", "UNKNOWN"][enc.as_long()] != real:
                res["inconclusive"].append("the encoded verdict table disagrees with the real parser on %r: encoding %s, real %s" % (reply_of(v), enc, real))
    res["wall_s"] = round(time.time() - t0, 2)
    return res


def reply_of(v):
    lines = []
    if v["status"] == "sat":
        lines.append("s SATISFIABLE")
    elif v["status"] == "unsat":
        lines.append("s UNSATISFIABLE")
    if v["seen"]:
        lines.append("v 1" + (" -2 0" if v["end"] else ""))
    return "".join(l + "\n" for l in lines)


def real_verdict(reply):
    r = subprocess.run([REPLYRUN, "2"], input=reply.encode(), capture_output=True, timeout=60)
    return r.stdout.decode().strip().split(" ")[0]


def replay(v):
    """(reproduced, text): the real parser's verdict on the reply against the rule of the property."""
    reply = v["reply"]
    real = real_verdict(reply)
    if v["status"] == "garbage-after":
        allowed = ("UNKNOWN", "PANIC")
    elif v["status"] == "sat" and v["seen"] and v["end"]:
        allowed = ("SAT",)
    elif v["status"] == "unsat":
        allowed = ("UNSAT",)
    else:
        allowed = ("UNKNOWN", "PANIC")
    return real not in allowed, "the real BufferedSatSolver reports %s for the reply %r (allowed: %s)" % (real, reply, "/".join(allowed))


if __name__ == "__main__":
    r = run()
    print(json.dumps(r, indent=1, default=str))
    for v in r["violations"]:
        print(replay(v))
