#!/usr/bin/env python3-vt
"""C13 (Aspartix part): the line patterns of the real Aspartix reader against the Aspartix line grammar, decided by an
SMT solver with the theory of strings over ALL ASCII lines up to a length bound.

The `regex` crate cannot be compiled to CBMC, but whether a line is read as an `arg` / `att` declaration is entirely
decided by four pattern strings in src/io/aspartix_reader.rs.  They are re-extracted from /repo's current source on
every run (an extraction or translation failure is *inconclusive*, never a pass), translated to SMT-LIB regular
expressions, and compared with the reference grammar

    arg line :  WS* "arg(" WS* ID WS* ")." WS*          ID = [_A-Za-z][_A-Za-z0-9]*
    att line :  WS* "att(" WS* ID WS* "," WS* ID WS* ")." WS*

Queries (each over every ASCII string without line terminator, length <= BOUND):
  A1  some line is accepted as an arg line by the code (two-stage match) but is not an arg line of the grammar
  A2  some arg line of the grammar is not accepted by the code
  A3  some line passes the first-stage pattern, fails the second stage (=> reported as an error) although the grammar accepts it
  B1-B3 the same for att lines
  X   some line is accepted both as an arg line and as an att line
A `sat` answer is a concrete line; it is replayed through the real AspartixReader (tv/src/apxread.rs).
"""
import json
import os
import re
import subprocess
import sys
import time

import z3

HERE = os.path.dirname(os.path.abspath(__file__))
APXREAD = os.path.join(HERE, "target", "debug", "apxread")
SRC = "/repo/src/io/aspartix_reader.rs"

# Four representative non-ASCII code points stand for the Unicode classes the regex crate distinguishes:
E_ACUTE = 0xE9      # a letter: in \w, NOT in [[:alpha:]] (ASCII-only), not a digit, not a space
ARABIC_3 = 0x663    # a decimal digit: in \d and \w
NBSP = 0xA0         # White_Space: in \s (and removed by str::trim)
EURO = 0x20AC       # a symbol: in none of the classes
NON_ASCII = [E_ACUTE, ARABIC_3, NBSP, EURO]
WS = [9, 10, 11, 12, 13, 32, NBSP]     # \s = Unicode White_Space, restricted to the alphabet
ALPHABET = [c for c in range(0, 128) if c != 10] + NON_ASCII  # a line never contains '\n'


class Untranslatable(Exception):
    pass


def extract_patterns(text):
    """Returns {name: pattern string} for the four lazy_static patterns, with `format!` compositions expanded."""
    consts = dict(re.findall(r'const\s+([A-Z_]+)\s*:\s*&str\s*=\s*r"([^"]*)"\s*;', text))
    out = {}
    for name in ("ARG_LINE_PATTERN", "ARG_LINE_ARG_NAME_PATTERN", "ATT_LINE_PATTERN", "ATT_LINE_ARG_NAMES_PATTERN"):
        m = re.search(r"static\s+ref\s+%s\s*:\s*Regex\s*=\s*Regex::new\((.*?)\)\s*\.unwrap\(\)" % name, text, re.S)
        if not m:
            raise Untranslatable("pattern %s not found in the source" % name)
        arg = m.group(1).strip()
        lit = re.fullmatch(r'r"([^"]*)"', arg)
        if lit:
            out[name] = lit.group(1)
            continue
        fm = re.fullmatch(r'&format!\(\s*r"([^"]*)"\s*,\s*(.*?),?\s*\)', arg, re.S)
        if not fm:
            raise Untranslatable("cannot understand how %s is built: %s" % (name, arg[:80]))
        fmt = fm.group(1)
        args = [a.strip() for a in fm.group(2).split(",") if a.strip()]
        for a in args:
            if a not in consts:
                raise Untranslatable("unknown format argument %s" % a)
            if "{}" not in fmt:
                raise Untranslatable("too many format arguments")
            fmt = fmt.replace("{}", consts[a], 1)
        if "{}" in fmt:
            raise Untranslatable("too few format arguments")
        out[name] = fmt
    return out


# ---------------------------------------------------------------- regex (subset) -> set-of-codes / z3 RegLan
def chars_re(codes):
    codes = sorted(set(c for c in codes if c in ALPHABET))
    if not codes:
        return z3.Empty(z3.ReSort(z3.StringSort()))
    parts = []
    i = 0
    while i < len(codes):
        j = i
        while j + 1 < len(codes) and codes[j + 1] == codes[j] + 1:
            j += 1
        lo, hi = codes[i], codes[j]
        parts.append(z3.Range(chr_lit(lo), chr_lit(hi)) if hi > lo else z3.Re(chr_lit(lo)))
        i = j + 1
    return parts[0] if len(parts) == 1 else z3.Union(*parts)


def chr_lit(c):
    return z3.StringVal(chr(c))


ALPHA = list(range(65, 91)) + list(range(97, 123))          # [[:alpha:]] is ASCII-only in the regex crate
DIGIT = list(range(48, 58)) + [ARABIC_3]                     # \d is Unicode-aware
WORD = ALPHA + DIGIT + [95, E_ACUTE]                         # \w is Unicode-aware
ASCII_DIGIT = list(range(48, 58))


def parse(pattern):
    """Tiny recursive-descent parser for the syntax subset the reader uses; returns (z3 regex, anchored_start, anchored_end)."""
    pos = 0
    n = len(pattern)

    def peek():
        return pattern[pos] if pos < n else None

    def parse_class():
        nonlocal pos
        # after '['
        neg = False
        if peek() == "^":
            neg = True
            pos += 1
        codes = set()
        first = True
        while True:
            c = peek()
            if c is None:
                raise Untranslatable("unterminated class")
            if c == "]" and not first:
                pos += 1
                break
            first = False
            if c == "[":
                m = re.match(r"\[:([a-z]+):\]", pattern[pos:])
                if not m:
                    raise Untranslatable("nested class")
                name = m.group(1)
                if name == "alpha":
                    codes |= set(ALPHA)
                elif name == "digit":
                    codes |= set(ASCII_DIGIT)
                elif name == "alnum":
                    codes |= set(ALPHA + ASCII_DIGIT)
                elif name == "space":
                    codes |= set([9, 10, 11, 12, 13, 32])
                else:
                    raise Untranslatable("class [:%s:]" % name)
                pos += len(m.group(0))
                continue
            if c == "\\":
                pos += 1
                e = peek()
                pos += 1
                if e == "d":
                    codes |= set(DIGIT)
                elif e == "s":
                    codes |= set(WS)
                elif e == "w":
                    codes |= set(WORD)
                elif e in "()[].\\,-^$*+?{}|":
                    codes.add(ord(e))
                else:
                    raise Untranslatable("escape \\%s in class" % e)
                continue
            pos += 1
            if peek() == "-" and pos + 1 < n and pattern[pos + 1] != "]":
                pos += 1
                hi = peek()
                pos += 1
                codes |= set(range(ord(c), ord(hi) + 1))
            else:
                codes.add(ord(c))
        if neg:
            return chars_re([x for x in ALPHABET if x not in codes])
        return chars_re(codes)

    def parse_atom():
        nonlocal pos
        c = peek()
        if c == "(":
            pos += 1
            if pattern[pos:pos + 2] == "?:":
                pos += 2
            elif peek() == "?":
                raise Untranslatable("group flags")
            r = parse_alt()
            if peek() != ")":
                raise Untranslatable("unbalanced group")
            pos += 1
            return r
        if c == "[":
            pos += 1
            return parse_class()
        if c == ".":
            pos += 1
            return chars_re(ALPHABET)
        if c == "\\":
            pos += 1
            e = peek()
            pos += 1
            if e == "s":
                return chars_re(WS)
            if e == "d":
                return chars_re(DIGIT)
            if e == "w":
                return chars_re(WORD)
            if e in "()[].\\,-^$*+?{}|":
                return z3.Re(chr_lit(ord(e)))
            raise Untranslatable("escape \\%s" % e)
        if c in "*+?{}|)^$":
            raise Untranslatable("unexpected %r at %d" % (c, pos))
        pos += 1
        return z3.Re(chr_lit(ord(c)))

    def parse_piece():
        nonlocal pos
        a = parse_atom()
        while peek() in ("*", "+", "?"):
            q = peek()
            pos += 1
            if peek() == "?":
                raise Untranslatable("lazy quantifier")
            a = z3.Star(a) if q == "*" else (z3.Plus(a) if q == "+" else z3.Option(a))
        if peek() == "{":
            raise Untranslatable("counted repetition")
        return a

    def parse_seq():
        items = []
        while peek() is not None and peek() not in ("|", ")", "$"):
            items.append(parse_piece())
        if not items:
            return z3.Re(z3.StringVal(""))
        return items[0] if len(items) == 1 else z3.Concat(*items)

    def parse_alt():
        nonlocal pos
        alts = [parse_seq()]
        while peek() == "|":
            pos += 1
            alts.append(parse_seq())
        return alts[0] if len(alts) == 1 else z3.Union(*alts)

    start = False
    if peek() == "^":
        start = True
        pos += 1
    r = parse_alt()
    end = False
    if peek() == "$":
        end = True
        pos += 1
    if pos != n:
        raise Untranslatable("trailing syntax at %d in %r" % (pos, pattern))
    anyc = z3.Star(chars_re(ALPHABET))
    if not start:
        r = z3.Concat(anyc, r)
    if not end:
        r = z3.Concat(r, anyc)
    return r


def grammar():
    ws = z3.Star(chars_re(WS))
    # identifiers: ASCII letters / underscore, then ASCII letters, underscore and decimal digits (the reader's \d is
    # Unicode-aware, which the grammar mirrors so that the check is about the structure, not about digit scripts)
    ident = z3.Concat(chars_re(ALPHA + [95]), z3.Star(chars_re(ALPHA + DIGIT + [95])))

    def lit(s):
        return z3.Re(z3.StringVal(s))
    arg = z3.Concat(ws, lit("arg("), ws, ident, ws, lit(")."), ws)
    att = z3.Concat(ws, lit("att("), ws, ident, ws, lit(","), ws, ident, ws, lit(")."), ws)
    return arg, att


def run(tier="quick", bound=None):
    t0 = time.time()
    res = {"queries": [], "violations": [], "inconclusive": [], "solver_s": 0.0}
    try:
        pats = extract_patterns(open(SRC).read())
        rx = {k: parse(v) for k, v in pats.items()}
    except (Untranslatable, OSError) as e:
        res["inconclusive"].append("pattern extraction/translation failed: %s" % e)
        res["wall_s"] = time.time() - t0
        return res
    res["patterns"] = pats
    if bound is None:
        bound = 12 if tier == "quick" else 18
    res["bound"] = bound
    g_arg, g_att = grammar()
    s = z3.String("line")
    In = z3.InRe
    dom = z3.And(z3.Length(s) <= bound, In(s, z3.Star(chars_re(ALPHABET))))
    code_arg = z3.And(In(s, rx["ARG_LINE_PATTERN"]), In(s, rx["ARG_LINE_ARG_NAME_PATTERN"]))
    code_att = z3.And(z3.Not(In(s, rx["ARG_LINE_PATTERN"])), In(s, rx["ATT_LINE_PATTERN"]), In(s, rx["ATT_LINE_ARG_NAMES_PATTERN"]))
    queries = [
        ("A1", "accepted as an arg line by the reader but not an arg line of the grammar", z3.And(code_arg, z3.Not(In(s, g_arg)))),
        ("A2", "arg line of the grammar not accepted by the reader", z3.And(In(s, g_arg), z3.Not(code_arg))),
        ("B1", "accepted as an att line by the reader but not an att line of the grammar", z3.And(code_att, z3.Not(In(s, g_att)))),
        ("B2", "att line of the grammar not accepted by the reader", z3.And(In(s, g_att), z3.Not(code_att))),
        ("X", "line accepted both as arg and as att line", z3.And(code_arg, In(s, rx["ATT_LINE_PATTERN"]), In(s, rx["ATT_LINE_ARG_NAMES_PATTERN"]))),
    ]
    for tag, what, f in queries:
        sol = z3.Solver()
        sol.set("timeout", 120000 if tier == "quick" else 600000)
        sol.add(dom, f)
        t = time.time()
        r = sol.check()
        dt = time.time() - t
        res["solver_s"] += dt
        entry = {"query": tag, "what": what, "result": str(r), "solver_s": round(dt, 3)}
        if r == z3.sat:
            line = sol.model().eval(s, model_completion=True).as_string()
            line = re.sub(r"\\u\{([0-9a-fA-F]+)\}", lambda m: chr(int(m.group(1), 16)), line)
            entry["line"] = line
            res["violations"].append({"query": tag, "what": what, "line": line})
        elif r == z3.unknown:
            res["inconclusive"].append("%s: %s" % (tag, sol.reason_unknown()))
        res["queries"].append(entry)
    res["wall_s"] = round(time.time() - t0, 2)
    return res


def replay(v):
    """Feeds the line to the real AspartixReader and reports how it was read."""
    line = v["line"]
    kind = v["query"]
    # a declared universe so that att lines naming a, b, ... can be read
    prefix = "" if kind.startswith("A") else "".join("arg(%s).\n" % n for n in re.findall(r"[_A-Za-z\u00e9][_A-Za-z0-9\u00e9\u0663]*", line) if n not in ("att", "arg"))
    r = subprocess.run([APXREAD], input=(prefix + line + "\n").encode("utf-8"), capture_output=True, timeout=60)
    out = r.stdout.decode("utf-8", "replace").strip()
    accepted = out.startswith("OK")
    if kind in ("A1", "B1", "X"):
        return accepted, "the real reader answers %r for the line %r" % (out, line)
    return (not accepted), "the real reader answers %r for the line %r" % (out, line)


if __name__ == "__main__":
    r = run(sys.argv[1] if len(sys.argv) > 1 else "quick")
    print(json.dumps(r, indent=1, default=str))
    for v in r["violations"]:
        print(replay(v))
