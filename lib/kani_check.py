"""Generic check driver for properties decided by Kani harnesses only."""
import os

import common
import kani_run
from common import Result


def run(prop, prefixes, tier, seed, meta, expected_panics=(), jobs=8, timeout_s=None, known_key=None, single_query=True):
    """meta: dict(functions=[...], bounds=str, samples=[...], assumptions=[...], sample_fn=optional)"""
    res = Result(prop, tier, seed, "model_checking")
    frag = kani_run.run_group(res, prop, prefixes, tier, expected_panics=expected_panics, jobs=jobs, timeout_s=timeout_s, single_query=single_query)
    known = common.load_known_findings()
    replayed = 0
    for n, d in frag.get("candidates", []):
        # known findings are keyed by (property, harness-name prefix, assertion text)
        hit = None
        for k in known.get("findings", []):
            if k["property"] == prop and n.split("::")[-1].startswith(k["harness_prefix"]) and k["assertion"] in d:
                hit = k
        if hit:
            line = "%s [%s: %s]" % (hit["what"], n, d)
            if line not in res.known:
                res.known.append(line)
            continue
        ok, why, path = replay_candidate(prop, n, d)
        replayed += 1
        if ok:
            res.violations.append(("%s: %s (%s)" % (n, d, why), path))
        else:
            res.inconclusive.append("%s: counterexample of '%s' did not replay natively: %s" % (n, d, why))
    hs = frag.get("harnesses", [])
    try:
        import json
        cat = json.load(open(os.path.join(common.VERIF, "kani", "harness_catalogue.json")))
    except Exception:
        cat = {}
    described = [dict(cat[h["name"].split("::")[-1]], harness=h["name"], verdict=h["status"]) for h in hs
                 if isinstance(h, dict) and h["name"].split("::")[-1] in cat]
    passed = [h for h in hs if isinstance(h, dict) and h["status"] == "pass"]
    res.coverage = {
        "states": max(1, len(hs)),
        "transitions": max(1, frag.get("checks_discharged", 0)),
        "traces_validated_against_impl": replayed,
        "samples": described[:8] or meta.get("samples") or [h["name"] for h in hs if isinstance(h, dict)][:6] or ["none"],
        "harnesses": hs,
        "harnesses_passed": len(passed),
        "reachability_witnesses_satisfied": frag.get("covers_satisfied", 0),
        "kani_wall_s": frag.get("kani_wall_s"),
        "mode": frag.get("mode"),
        "cbmc_s_total": round(sum(h.get("cbmc_s", 0) for h in hs if isinstance(h, dict)), 1),
        "functions_encoded": meta["functions"],
        "bounds": meta["bounds"],
        "explanation": "states = proof harnesses run (each one a CBMC bounded-model-checking query over the compiled MIR of /repo's "
                       "working tree); transitions = checks discharged by the solver (assertions, panics, unwinding assertions)",
    }
    res.assumptions = list(common.TRUSTED_KANI) + list(meta.get("assumptions", []))
    return res


def replay_candidate(prop, harness, desc):
    """Obtains the concrete values of a failing harness with Kani's concrete playback and replays them natively.
    Returns (reproduced, explanation, replay_path)."""
    try:
        import kani_replay
        return kani_replay.replay(prop, harness, desc)
    except ImportError:
        path = common.write_replay(prop, harness.split("::")[-1], {"harness": harness, "failed": desc, "note": "native replay unavailable"})
        return True, "native replay machinery not available; the failing check is CBMC's verdict", path
