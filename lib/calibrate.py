#!/usr/bin/env python3-vt
"""Development tool: runs harnesses one per slot and records wall time, verdict and peak RSS of CBMC (polled).
usage: calibrate.py <slots> <timeout_s> <prefix,prefix,...> [single|full]"""
import json
import os
import subprocess
import sys
import threading
import time

sys.path.insert(0, os.path.dirname(os.path.abspath(__file__)))
import kani_run

slots = int(sys.argv[1])
timeout = int(sys.argv[2])
names = kani_run.select(sys.argv[3].split(","))
single = (len(sys.argv) < 5 or sys.argv[4] == "single")
out_path = os.path.join(kani_run.WORK, "calibration.jsonl")
lock = threading.Lock()
queue = list(names)
peak = {}


def poll():
    while True:
        try:
            ps = subprocess.run(["ps", "-eo", "rss,args"], capture_output=True, text=True).stdout
            for line in ps.splitlines():
                if " cbmc " in line or line.strip().split(" ", 1)[-1].startswith("cbmc"):
                    parts = line.split()
                    rss = int(parts[0])
                    for n in names:
                        short = n.split("::")[-1]
                        if short + ".out" in line:
                            peak[n] = max(peak.get(n, 0), rss)
        except Exception:
            pass
        time.sleep(5)


threading.Thread(target=poll, daemon=True).start()


def worker(slot):
    while True:
        with lock:
            if not queue:
                return
            n = queue.pop(0)
        t0 = time.time()
        out, wall, to, log = kani_run.run_kani([n], timeout, jobs=1, harness_timeout=timeout - 30, target="cal%d" % slot, single_query=single)
        r = kani_run.parse(out, [n])[n]
        rec = {"harness": n, "status": r.status, "wall_s": round(wall, 1), "cbmc_s": r.time_s, "peak_rss_gb": round(peak.get(n, 0) / 1e6, 1),
               "failed": r.failed[:3], "notes": r.notes[:3], "single": single}
        with lock:
            with open(out_path, "a") as f:
                f.write(json.dumps(rec) + "\n")
            print(json.dumps(rec), flush=True)


ts = [threading.Thread(target=worker, args=(i,)) for i in range(slots)]
for t in ts:
    t.start()
for t in ts:
    t.join()
