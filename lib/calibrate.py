#!/usr/bin/env python3-vt
"""Development tool: runs a set of harnesses in ONE cargo-kani invocation (-j jobs) and records verdict, CBMC time and
peak RSS (polled) per harness in .work/calibration.jsonl.
usage: calibrate.py <jobs> <timeout_s> <prefix,prefix,...> [single|full]"""
import json
import os
import subprocess
import sys
import threading
import time

sys.path.insert(0, os.path.dirname(os.path.abspath(__file__)))
import kani_run

jobs = int(sys.argv[1])
timeout = int(sys.argv[2])
names = kani_run.select(sys.argv[3].split(","))
single = (len(sys.argv) < 5 or sys.argv[4] == "single")
hto = int(sys.argv[5]) if len(sys.argv) > 5 else 600
tgt = sys.argv[6] if len(sys.argv) > 6 else "cal"
out_path = os.path.join(kani_run.WORK, "calibration.jsonl")
peak = {}
stop = False


def poll():
    while not stop:
        try:
            ps = subprocess.run(["ps", "-eo", "rss,args"], capture_output=True, text=True).stdout
            for line in ps.splitlines():
                parts = line.split(None, 2)
                if len(parts) >= 2 and parts[1].endswith("cbmc"):
                    rss = int(parts[0])
                    for n in names:
                        if n.split("::")[-1] + ".out" in line:
                            peak[n] = max(peak.get(n, 0), rss)
        except Exception:
            pass
        time.sleep(3)


threading.Thread(target=poll, daemon=True).start()
print(len(names), "harnesses", flush=True)
out, wall, to, log = kani_run.run_kani(names, timeout, jobs=jobs, harness_timeout=hto, target=tgt, single_query=single)
stop = True
res = kani_run.parse(out, names)
with open(out_path, "a") as f:
    for n in names:
        r = res[n]
        rec = {"harness": n, "status": r.status, "cbmc_s": r.time_s, "peak_rss_gb": round(peak.get(n, 0) / 1e6, 1),
               "failed": r.failed[:3], "notes": r.notes[:3], "single": single, "jobs": jobs}
        f.write(json.dumps(rec) + "\n")
        print(json.dumps(rec), flush=True)
print("wall", round(wall, 1), log)
