#!/usr/bin/env python3
"""Runs checks against the seeded changes: seed_eval.py <tier> <seed-id|all> [check ...]
For each seed: git -C /repo apply patch.diff; ./check <C> --tier <tier>; git -C /repo checkout -- .
The outcome is recorded in seeded/<id>/meta.json under "detection"."""
import json
import os
import subprocess
import sys
import time

VERIF = os.path.dirname(os.path.dirname(os.path.abspath(__file__)))
tier = sys.argv[1]
which = sys.argv[2]
checks_arg = sys.argv[3:]
seeds = sorted(os.listdir(os.path.join(VERIF, "seeded")))
if which != "all":
    seeds = [s for s in seeds if s in which.split(",")]
for s in seeds:
    d = os.path.join(VERIF, "seeded", s)
    meta = json.load(open(os.path.join(d, "meta.json")))
    checks = checks_arg or [meta["property"]]
    st = subprocess.run(["git", "-C", "/repo", "status", "--porcelain", "--untracked-files=no"], capture_output=True, text=True).stdout.strip()
    if st:
        print("REPO NOT CLEAN, abort:", st)
        sys.exit(2)
    r = subprocess.run(["git", "-C", "/repo", "apply", "--3way", os.path.join(d, "patch.diff")], capture_output=True, text=True)
    if r.returncode != 0:
        print(s, "patch does not apply:", r.stderr[:200])
        subprocess.run(["git", "-C", "/repo", "reset", "-q", "--hard", "HEAD"])
        continue
    subprocess.run(["git", "-C", "/repo", "reset", "-q"])  # unstage, keep the working-tree change
    try:
        for c in checks:
            t0 = time.time()
            # the evidence file of the unchanged tree is put back afterwards (a seeded run must not be what is committed)
            ev = os.path.join(VERIF, "evidence", c + ".json")
            saved = open(ev).read() if os.path.exists(ev) else None
            p = subprocess.run([os.path.join(VERIF, "check"), c, "--tier", tier], cwd=VERIF, capture_output=True, text=True)
            lines = [l for l in p.stdout.splitlines() if l.startswith(("VIOLATION", "INCONCLUSIVE", "OK", "KNOWN"))]
            rec = {"tier": tier, "exit": p.returncode, "wall_s": round(time.time() - t0), "first": (lines[0][:300] if lines else p.stdout[-300:] + p.stderr[-300:])}
            meta.setdefault("detection", {})["%s/%s" % (c, tier)] = rec
            print(s, c, tier, "exit", p.returncode, rec["wall_s"], "s", rec["first"][:160], flush=True)
            if saved is not None:
                open(ev, "w").write(saved)
    finally:
        subprocess.run(["git", "-C", "/repo", "checkout", "--", "."])
        json.dump(meta, open(os.path.join(d, "meta.json"), "w"), indent=1)
    # replay files of seeded runs are not kept
    for f in os.listdir(os.path.join(VERIF, "replays")):
        os.remove(os.path.join(VERIF, "replays", f))
