#!/bin/bash
# usage: seed_verify.sh <patch.diff> <demo.rs> : confirms in a scratch worktree of /repo (HEAD) that
#  (1) the patch applies, (2) the existing suite passes with it, (3) the demonstration fails with it, (4) passes without it.
set -u
PATCH="$1"; DEMO="$2"
W=/tmp/seedv
if [ ! -d $W ]; then git -C /repo worktree add -q --detach $W HEAD; fi
git -C $W checkout -q --detach $(git -C /repo rev-parse HEAD); git -C $W reset -q --hard HEAD; git -C $W clean -fdq -e target
name=$(basename "$DEMO" .rs)_$(basename $(dirname "$DEMO") | tr -c 'A-Za-z0-9' '_')
cd $W
if ! git apply --3way "$PATCH" 2>/tmp/seedv.applyerr; then echo "APPLY-FAILED $(head -3 /tmp/seedv.applyerr)"; exit 3; fi
suite=$(cargo test --workspace --no-fail-fast --offline -j 6 2>&1 | grep -E "^test result" | awk '{p+=$4; f+=$6} END {print p" passed "f" failed"}')
echo "SUITE-WITH-PATCH: $suite"
cp "$DEMO" tests/$name.rs
with=$(cargo test --offline -j 6 --test $name 2>&1 | grep -E "^test result" | tail -1)
echo "DEMO-WITH-PATCH: $with"
git reset -q --hard HEAD
without=$(cargo test --offline -j 6 --test $name 2>&1 | grep -E "^test result" | tail -1)
echo "DEMO-WITHOUT-PATCH: $without"
rm -f tests/$name.rs
