#!/usr/bin/env python3
"""Regenerates /verif/MANIFEST.json from the table below (kept in one place so that it stays valid)."""
import json
import os

VERIF = os.path.dirname(os.path.dirname(os.path.abspath(__file__)))

HOOK_COMMITS = ["bc605e4", "0c3cdcb", "e55cdba"]

CHECKS = {
    "C10": dict(
        category="translation_validation",
        technique="SMT translation validation (z3) of the CNF emitted by the real encoders + Kani/CBMC on the variable-layout arithmetic",
        text="Every CNF the real encoders emit for the enumerated frameworks is validated against the set-theoretic definition "
             "over ALL assignments by z3 (sound, complete, range-sound, range-complete; exists-forall for the two completeness "
             "obligations); the variable layout is model-checked by Kani for a symbolic number of arguments below 2^20. "
             "Counterexamples are replayed through the real assignment_to_extension before being reported.",
        note="Frameworks are enumerated (all with <=3 arguments, duplicates, seeded random 4..8, extracted components, hybrid-threshold "
             "shapes); the solver decides the assignment dimension only. Trusted: z3, the recording SatSolver of cnfdump, rustc; for the "
             "Kani part Kani 0.68/CBMC 6.11.",
        design="DESIGN.md section 4 (C10)"),
    "C13": dict(
        category="model_checking",
        technique="SMT check (z3) of what the real readers' source decides: string theory on the Aspartix line patterns against the line grammar, 64-bit bit-vectors on the ICCMA'23 index guards and id arithmetic; both re-extracted from the source on every run",
        text="The acceptance decision of the Aspartix reader for a line is determined by four regular expressions; they are re-extracted "
             "from the current source, translated to SMT-LIB regular expressions and compared with the Aspartix line grammar for every "
             "ASCII line up to 12 (quick) / 18 (thorough) characters. A satisfiable query is a concrete line, replayed through the real reader. "
             "For the ICCMA'23 reader the parse type, match guard, forwarded value and id arithmetic of the attack-line indexes, of read_arg_from_str and of "
             "the preamble count are re-extracted and decided over every 64-bit token value and every declared size: accepted iff 1 <= index <= N, mapped to id index-1 "
             "without overflow; counterexamples are replayed through the real Iccma23Reader (a panic counts).",
        note="Outside: non-ASCII input, the control flow around the patterns (argument after attack, undeclared argument), the tokenisation and line control flow of the ICCMA'23 "
             "reader (BufReader::lines / split_whitespace / str::parse: CBMC does not finish at useful buffer sizes; see DESIGN.md). Trusted: z3's string and bit-vector theories, the "
             "hand-written translation of the regex subset and of the Rust integer-expression subset (validated on concrete values against the real reader at every run).",
        design="DESIGN.md section 4 (C13)"),
}

CHECKS["C19"] = dict(
    category="translation_validation",
    technique="SMT validation (z3) of the partition produced by the real EquivalencyComputer, per enumerated framework",
    text="The real reduction is run natively on each enumerated framework; for every class of merged arguments z3 decides over ALL "
         "argument sets that no complete extension contains one member and not another; totality/inverse of the two mappings and the "
         "grounded / grounded-defeated classes are checked on the dump. A sat answer is a separating complete extension, re-checked by "
         "brute force before it is reported.",
    note="Frameworks are enumerated (all <=3 arguments, 4 arguments sampled in quick / all in thorough, seeded random 5..10, chains, cycles); "
         "the solver decides the extension dimension. Trusted: z3, the dumper, the set-theoretic definition of complete extensions.",
    design="DESIGN.md section 4 (C19)")
CHECKS["C05"] = dict(
    category="model_checking",
    technique="Kani/CBMC bounded model checking of Query::read_problem_string over all ASCII strings of <= 6 bytes",
    text="Only the string layer of the property is within reach of solver-based checking: for every ASCII string of at most 6 bytes "
         "read_problem_string succeeds exactly on the 21 listed problem strings (case-insensitively) with the right meaning and never "
         "panics. The process-level clauses (answers on stdout, exit status, clap usage errors) are outside the technique.",
    note="Claimed narrowly on purpose: clap, the dispatch table of solve_command, stdout and the exit status live in the binary crate and "
         "the OS and cannot be compiled to CBMC. Trusted: Kani 0.68/CBMC 6.11, the stubs listed in the evidence.",
    design="DESIGN.md section 4 (C05)")

_STATIC_NOTE = ("Frameworks and queries are concrete per harness (2 arguments in quick, 2-3 in thorough; plain / duplicated-attack / sparse-id "
                "presentations); CBMC decides over every model the SAT backend may return at every call (demonic oracle). OUTSIDE the claim: the iterative solvers "
                "PR (SE/DS), SST, STG, ID as soon as the backend returns a model (CBMC does not finish on them even for a<->b: measured 57 GB / 19 min; even one arbitrary model times out); "
                "they are covered only on frameworks whose grounded extension decides every argument, where every SAT call is unsatisfiable (a->b, two isolated arguments, a->b->c). "
                "Also outside: frameworks with >3 arguments, the real backends. "
                "Trusted: Kani 0.68/CBMC 6.11, VecMap for HashMap under cfg(kani), the stubs (format, Backtrace::capture, anyhow::Error drop; fmt::write in the DIMACS harness; unwrap_model in the C17 harnesses, see DESIGN.md section 4), the reference "
                "semantics (cross-validated natively on all frameworks with <=3 arguments).")
_STATIC = {
    "C01": "single-extension answers of the stable and grounded (GR, SE-CO) solvers are extensions given in the caller's own arguments; 'no extension' only when none exists",
    "C02": "credulous statuses of the stable, complete (DC-CO, DC-PR; aux_var / exp / hybrid) and grounded solvers equal the reference semantics",
    "C03": "skeptical statuses of the stable and grounded (GR, DS-CO) solvers equal the reference semantics, including 'every argument accepted' when no stable extension exists",
    "C04": "certificates of the stable / complete / grounded solvers appear exactly when promised, are extensions, contain / omit the queried argument and consist of the framework's own argument objects",
    "C06": "on one solver object the same query with and without certificate, repeated and in different orders, gives the reference status each time; the complete solver gives one status for the aux_var, exp and hybrid encodings; the framework is unchanged by querying (stable, complete, grounded solvers)",
    "C07": "queries over every ordered pair of arguments are answered as disjunctions, with and without certificate (complete, stable, grounded solvers; cross-component case at 3 arguments)",
    "C16": "clause (a): no SAT call of the stable / complete solvers carries an assumption on a variable above n_vars(), i.e. the DIMACS header written by BufferedSatSolver covers the instance; reply clause, final verdict only: the `match status` table at the end of the reply parser, re-extracted from the source and decided by z3 over all combinations of the facts it reads, reports a model only with `s SATISFIABLE` + a value line + the terminating 0 and UNSATISFIABLE only with its status line, and no branch of the line classification leaves the rest of the reply unexamined (counterexamples replayed through the real parser)",
    "C17": "when the k-th SAT call (k symbolic) of a stable / complete query returns Unknown, or when the backend of a preferred / semi-stable / stage / ideal query is dead from the first call on, the query never returns a status or an extension (it aborts by the panic of unwrap_model, which is checked on the real function by its own harness)",
    "C18": "the stable and complete solvers make at most two SAT calls per solver instance (= per connected component)",
}
for _p, _t in _STATIC.items():
    CHECKS[_p] = dict(
        category="model_checking",
        technique="Kani/CBMC bounded model checking of the real solver code with a demonic SAT oracle (symbolic model choices), concrete small frameworks" + ("; z3 on the source-extracted verdict table of the reply parser" if _p == "C16" else ""),
        text=_t + ". Each harness is one CBMC query over the compiled MIR of the working tree; a failed assertion is reported only after native reproduction.",
        note=_STATIC_NOTE + (" For C06 the clause about the two real backends (embedded CaDiCaL / external process) is outside: the oracle stands for every backend honouring the SatSolver contract, that the real ones honour it is C15." if _p == "C06" else "") + (" For C16 the tokenisation of the reply (line classification, literal parsing; only the final verdict table is decided) and the 'cannot hang' clause, for C17 the external reply kinds and the exit status, for C18 the PR/ID/SST/STG bounds are outside." if _p in ("C16", "C17", "C18") else ""),
        design="DESIGN.md sections 3.3, 3.4, 4")
CHECKS["C14"] = dict(
    category="model_checking",
    technique="Kani/CBMC bounded model checking of the real ICCMA'23 response writer and of the status writers of both formats against a reference printer (formatting not stubbed)",
    text="For ICCMA'23 extensions of 0, 1 and 2 (thorough) arguments with a symbolic usize label (< 1000, < 100 with two arguments) and for a symbolic acceptance status "
         "with both writers, the bytes written by the real writers equal the reference printer's output (`w` + ` label`* + newline; YES / NO), which a reference reader maps "
         "back to the labels written.",
    note="OUTSIDE (measured: CBMC out of memory at 24-59 GB or time-out): the Aspartix extension writer and AspartixWriter::write_framework with String labels, hence the "
         "framework round trip and update histories; reading back through the regex-based AspartixReader (its patterns are covered by C13); extensions of more than two "
         "arguments. Trusted: Kani/CBMC, the reference printer/reader of the harness.",
    design="DESIGN.md section 4 (C14)")
CHECKS["C12"] = dict(
    category="model_checking",
    technique="Kani/CBMC bounded model checking of one operation of AAFramework<usize> with symbolic operands from enumerated reachable pre-states, against a set model",
    text="The real store is brought to one of ten reachable pre-states by a concrete prefix (empty, populated, with a tombstone of the attacker / of the target, target "
         "re-added with a self-attack, an attack removed again, emptied ...); ONE operation of a concrete kind (new argument, remove argument, new attack, remove attack) "
         "with operands symbolic over the labels {0,1} is applied to the store and to a plain set model; the operation's Result and one group of observables (counts, "
         "max id, lookups by label and id; or the three attack iterators) must agree.",
    note="OUTSIDE: two or more symbolic operations in a row (measured: out of memory at 50 GB), more labels, String labels; the iterator group only for the pre-states on "
         "which CBMC finishes. VecMap stands for HashMap under cfg(kani); counterexamples are confirmed natively with the real HashMap.",
    design="DESIGN.md section 4 (C12)")

NOT_APPLICABLE = {
    "C08": "CBMC does not get through the dynamic solvers: none of 12 harnesses (histories of 4-9 events over two labels, even with a single query: new a, new b, b->a, DS a) finished symbolic execution within 20-30 minutes. Diagnosis: the buffered encoders keep updates in a Vec of an enum with payloads (DynamicsEvent); labels read back from that union lose constant propagation, every lookup becomes symbolic and the whole solver state with it. The harness bodies exist (kani/src/dynamics.rs, h_dynamic.rs) and their native self-test found four genuine defects of the dynamic solvers (fixed, see known_findings.json), but no solver-based check can be offered",
    "C09": "same code and same obstacle as C08 (measured: no harness with redundant/invalid updates finished within 20 minutes)",
    "C11": "needs frameworks of 20-300 arguments; symbolic execution of the solvers reaches <=3 arguments, where the property is a corollary of C01-C03",
    "C15": "the behaviour specified is that of CaDiCaL (C++ behind FFI) and of an external process; neither can be compiled to the solver's input",
}


def main():
    props = [json.loads(l)["id"] for l in open(os.path.join(VERIF, "properties.jsonl"))]
    checks = []
    for p in props:
        if p not in CHECKS:
            continue
        c = CHECKS[p]
        checks.append({
            "property_id": p,
            "quick_cmd": "./check %s --tier quick" % p,
            "thorough_cmd": "./check %s --tier thorough" % p,
            "evidence_file": "/verif/evidence/%s.json" % p,
            "replay_cmd_template": "./check %s --replay {path}" % p,
            "level_claimed": {"category": c["category"], "text": c["text"], "design_ref": c["design"]},
            "level_note": c["note"],
            "technique": c["technique"],
        })
    na = []
    for p in props:
        if p in CHECKS:
            continue
        na.append({"property_id": p, "reason": NOT_APPLICABLE.get(p, "check not built yet (framework under construction); see DESIGN.md")})
    m = {
        "version": 1,
        "setup_cmd": "./setup.sh",
        "hooks": {
            "guard": "cargo feature `verif-hooks` (off by default); the HashMap->VecMap substitution in utils/label.rs additionally requires cfg(kani)",
            "enable": "the harness crates (/verif/kani, /verif/tv, /verif/native) depend on crustabri by path with features = [\"verif-hooks\"]",
            "baseline_off_cmd": "cd /repo && cargo test --workspace --no-fail-fast --offline",
            "source_commits": HOOK_COMMITS,
            "add_only": False,
        },
        "engines": [
            {"name": "kani", "path": "/verif/kani", "serves_properties": [p for p in CHECKS if "Kani" in CHECKS[p]["technique"]],
             "kind_free_text": "Kani 0.68 proof harnesses (CBMC 6.11 bounded model checking of the MIR of /repo) with a demonic SAT oracle"},
            {"name": "tv", "path": "/verif/tv", "serves_properties": ["C10", "C13", "C19"],
             "kind_free_text": "native dumpers linked against /repo + z3 (python) deciding the obligations over all assignments / strings"},
        ],
        "checks": checks,
        "not_applicable": na,
        "notes": "See DESIGN.md. `./check <id> --tier quick|thorough`; exit 0 pass, 1 violation (VIOLATION line with a replay file), 2 inconclusive.",
    }
    with open(os.path.join(VERIF, "MANIFEST.json"), "w") as f:
        json.dump(m, f, indent=1)
        f.write("\n")


if __name__ == "__main__":
    main()
