#!/usr/bin/env python3
"""Regenerates /verif/MANIFEST.json from the table below (kept in one place so that it stays valid)."""
import json
import os

VERIF = os.path.dirname(os.path.dirname(os.path.abspath(__file__)))

HOOK_COMMITS = ["bc605e4", "0c3cdcb"]

CHECKS = {
    "C10": dict(
        category="translation_validation",
        technique="SMT translation validation (z3) of the CNF emitted by the real encoders + Kani/CBMC on the variable-layout arithmetic",
        text="Every CNF the real encoders emit for the enumerated frameworks is validated against the set-theoretic definition "
             "over ALL assignments by z3 (sound, complete, range-sound, range-complete; exists-forall for the two completeness "
             "obligations); the variable layout is model-checked by Kani for a symbolic number of arguments below 2^20. "
             "Counterexamples are replayed through the real assignment_to_extension before being reported.",
        note="Frameworks are enumerated (all with <=3 arguments, duplicates, seeded random 4..8, extracted components, hybrid-threshold "
             "shapes); the solver decides the assignment dimension only. Trusted: z3, the recording SatSolver of cnfdump, rustc; for the "
             "Kani part Kani 0.68/CBMC 6.11.",
        design="DESIGN.md section 4 (C10)"),
    "C13": dict(
        category="model_checking",
        technique="SMT string-theory check (z3) of the Aspartix line patterns extracted from the source against the line grammar",
        text="The acceptance decision of the Aspartix reader for a line is determined by four regular expressions; they are re-extracted "
             "from the current source, translated to SMT-LIB regular expressions and compared with the Aspartix line grammar for every "
             "ASCII line up to 12 (quick) / 18 (thorough) characters. A satisfiable query is a concrete line, replayed through the real reader.",
        note="Outside: non-ASCII input, the control flow around the patterns (argument after attack, undeclared argument), the ICCMA'23 "
             "reader (BufReader/str::parse are out of CBMC's reach at useful buffer sizes; see DESIGN.md). Trusted: z3's string theory, the "
             "hand-written translation of the regex subset.",
        design="DESIGN.md section 4 (C13)"),
}

NOT_APPLICABLE = {
    "C11": "needs frameworks of 20-300 arguments; symbolic execution of the solvers reaches <=3 arguments, where the property is a corollary of C01-C03",
    "C15": "the behaviour specified is that of CaDiCaL (C++ behind FFI) and of an external process; neither can be compiled to the solver's input",
}


def main():
    props = [json.loads(l)["id"] for l in open(os.path.join(VERIF, "properties.jsonl"))]
    checks = []
    for p in props:
        if p not in CHECKS:
            continue
        c = CHECKS[p]
        checks.append({
            "property_id": p,
            "quick_cmd": "./check %s --tier quick" % p,
            "thorough_cmd": "./check %s --tier thorough" % p,
            "evidence_file": "/verif/evidence/%s.json" % p,
            "replay_cmd_template": "./check %s --replay {path}" % p,
            "level_claimed": {"category": c["category"], "text": c["text"], "design_ref": c["design"]},
            "level_note": c["note"],
            "technique": c["technique"],
        })
    na = []
    for p in props:
        if p in CHECKS:
            continue
        na.append({"property_id": p, "reason": NOT_APPLICABLE.get(p, "check not built yet (framework under construction); see DESIGN.md")})
    m = {
        "version": 1,
        "setup_cmd": "./setup.sh",
        "hooks": {
            "guard": "cargo feature `verif-hooks` (off by default); the HashMap->VecMap substitution in utils/label.rs additionally requires cfg(kani)",
            "enable": "the harness crates (/verif/kani, /verif/tv, /verif/native) depend on crustabri by path with features = [\"verif-hooks\"]",
            "baseline_off_cmd": "cd /repo && cargo test --workspace --no-fail-fast --offline",
            "source_commits": HOOK_COMMITS,
            "add_only": False,
        },
        "engines": [
            {"name": "kani", "path": "/verif/kani", "serves_properties": [p for p in CHECKS if "Kani" in CHECKS[p]["technique"]],
             "kind_free_text": "Kani 0.68 proof harnesses (CBMC 6.11 bounded model checking of the MIR of /repo) with a demonic SAT oracle"},
            {"name": "tv", "path": "/verif/tv", "serves_properties": ["C10", "C13"],
             "kind_free_text": "native dumpers linked against /repo + z3 (python) deciding the obligations over all assignments / strings"},
        ],
        "checks": checks,
        "not_applicable": na,
        "notes": "See DESIGN.md. `./check <id> --tier quick|thorough`; exit 0 pass, 1 violation (VIOLATION line with a replay file), 2 inconclusive.",
    }
    with open(os.path.join(VERIF, "MANIFEST.json"), "w") as f:
        json.dump(m, f, indent=1)
        f.write("\n")


if __name__ == "__main__":
    main()
