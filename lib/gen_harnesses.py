#!/usr/bin/env python3
"""Generates the list of static-solver harnesses at the end of kani/src/h_static.rs (below the GENERATED-BELOW marker).

One harness = one concrete framework presentation and ONE query (measured: 20-100 s of CBMC and 1-6 GB each, against
10 min / 19 GB for three queries in one harness), so that many of them can run in parallel.
Graph codes: bit i*n+j = attack i->j.  n=2: 0 none (two components), 2 a->b, 6 a<->b, 8 b->b (a isolated), 9 a->a b->b,
10 a->b b->b, 14 a<->b b->b, 7 a->a a<->b, 11 a->a a->b b->b.  n=3: 0 three isolated, 2 a->b (c isolated), 8 b->a (c isolated),
34 a->b->c, 42 a<->b->c, 98 a->b->c->a, 290 a->b->c c->c, 137 c->b->a a->a, 266 a->b b->a? (see evidence).
"""
import os
import re

HERE = os.path.dirname(os.path.abspath(__file__))
PATH = os.path.join(os.path.dirname(HERE), "kani", "src", "h_static.rs")

SEM = {"st": "Sem::ST", "co": "Sem::CO", "pr": "Sem::PR", "gr": "Sem::GR", "sst": "Sem::SST", "stg": "Sem::STG", "id": "Sem::ID"}
ENC = {"def": "Enc::Default", "aux": "Enc::AuxCo", "exp": "Enc::ExpCo", "hyb": "Enc::Hybrid", "adm": "Enc::AuxAdm", "acf": "Enc::AuxCf", "ecf": "Enc::ExpCf"}
KIND = {"se": "Kind::SE", "dc": "Kind::DC", "ds": "Kind::DS"}
PRES = {"pl": "Pres::Plain", "du": "Pres::Dup", "s1": "Pres::SparseFirst", "s2": "Pres::SparseMid"}
CHECKS = {"c01": "ANSWER", "c02": "ANSWER", "c03": "ANSWER", "c04": "CERT", "c07": "CERT", "c16": "HEADER", "c17": "FAULT", "c18": "CALLS"}
LETTER = "abc"

out = []
seen = set()
catalogue = {}
budget = {("c01", "x"): 0, ("c04", "x"): 0, ("c07", "x"): 0, ("c02", "x"): 0, ("c03", "x"): 0, ("c16", "x"): 0, ("c17", "x"): 0, ("c18", "x"): 0}
XMAX = {"c01": 2, "c04": 2, "c07": 3}


def components(n, code):
    parent = list(range(n))

    def find(x):
        while parent[x] != x:
            x = parent[x]
        return x
    for i in range(n):
        for j in range(n):
            if (code >> (i * n + j)) & 1:
                parent[find(i)] = find(j)
    return len({find(i) for i in range(n)})


def h(prop, tier, sem, kind, enc, n, code, q, pres="pl", cert=None, fault=0, checks=None):
    """q: list of argument indices (empty for SE)"""
    if cert is None:
        cert = prop in ("c04",) or (prop == "c07")
    group = checks or CHECKS[prop]
    uses_ext = (group in ("CERT",) and (cert or kind == "se")) or (group == "ANSWER" and kind == "se")
    multi = components(n, code) > 1
    # measured (DESIGN.md section 2): these need 25-37 GB and 7-10 minutes of CBMC each -> tier x (thorough, one at a time)
    iterative = sem in ("sst", "stg", "id") or (sem == "pr" and kind != "dc")
    heavy = sem != "gr" and not iterative and uses_ext and ((sem in ("co", "pr")) or multi or (n == 3 and len(q) == 2) or pres in ("s1", "s2") and sem in ("co", "pr"))
    if sem == "st" and n == 2 and code in (8, 9):
        heavy = False  # the first component has no stable extension: the query ends at the first UNSAT (measured 40 s / 1.5 GB)
    if heavy:
        if (prop, "x") in budget and budget[(prop, "x")] >= XMAX.get(prop, 2):
            return  # at most a handful of 8-minute harnesses per property
        budget[(prop, "x")] = budget.get((prop, "x"), 0) + 1
        tier = "x"
    qn = "".join(LETTER[i] for i in q) if q else "x"
    name = "%s_%s_%s_%s_%s_n%dg%d_%s_%s%s%s" % (prop, tier, sem, kind, enc, n, code, qn, pres, "_cert" if cert else "", ("_f%ds" % (fault - 100) if fault >= 100 else "_f%d" % fault) if fault else "")
    if name in seen:
        return
    seen.add(name)
    if sem in ("sst", "stg"):
        nv = (3 * n if enc in ("aux", "def", "acf") and not (sem == "stg" and enc == "def") else 2 * n) + 2
    elif sem in ("pr", "id") and not (sem == "pr" and kind == "dc"):
        nv = (2 * n if enc in ("aux", "def", "adm") else n) + 3
    else:
        nv = n + 1 if sem in ("st", "gr") or kind != "dc" else (2 * n + 1 if enc in ("aux", "def") else n + 2)
    words = 1 if nv <= 6 else (2 if nv <= 7 else (4 if nv <= 8 else (8 if nv <= 9 else (16 if nv <= 10 else (32 if nv <= 11 else 64)))))
    unwind = max(6, nv + 2, n * n // 2 + 3)
    catalogue[name] = {"arguments": n, "attacks": ["%s->%s" % (LETTER[i], LETTER[j]) for i in range(n) for j in range(n) if (code >> (i * n + j)) & 1],
                       "problem": "%s-%s" % (kind.upper(), sem.upper()), "query": [LETTER[i] for i in q], "encoder": enc, "presentation": PRES[pres].split("::")[1],
                       "with_certificate": bool(cert), "fault_positions": fault % 100, "fault_permanent": fault >= 100, "assertion_group": checks or CHECKS[prop]}
    out.append("%s!(%s, n=%d, words=%d, unwind=%d, %s, %s, %s, %s, cert=%s, %s, qs=[[%s]], fault=%d, codes=[%d]);" % (
        "static_fault_harness" if prop == "c17" else "static_harness", name, n, words, unwind, SEM[sem], ENC[enc], KIND[kind], PRES[pres], "true" if cert else "false",
        checks or CHECKS[prop], ", ".join(str(i) for i in q), fault, code))


# ------------------------------------------------------------------ C01 single extension
for g in (0, 6, 8, 10, 14):
    h("c01", "q", "st", "se", "def", 2, g, [])
for g, p in ((2, "s1"), (6, "du"), (10, "pl")):
    h("c01", "q", "gr", "se", "def", 2, g, [], pres=p)
h("c01", "q", "co", "se", "def", 2, 14, [], pres="s2")
h("c01", "q", "st", "se", "def", 3, 42, [])
for g in (9, 2, 7, 11):
    h("c01", "t", "st", "se", "def", 2, g, [])
for g, p in ((0, "du"), (6, "s1"), (14, "s2"), (10, "du")):
    h("c01", "t", "st", "se", "def", 2, g, [], pres=p)
for g in (98, 8, 290, 0, 34):
    h("c01", "t", "st", "se", "def", 3, g, [])
for g in (42, 290, 98):
    h("c01", "t", "gr", "se", "def", 3, g, [], pres="du")

# ------------------------------------------------------------------ C02 credulous, no certificate
for g, q in ((2, 1), (6, 0), (10, 0), (14, 1), (0, 1), (9, 0)):
    h("c02", "q", "st", "dc", "def", 2, g, [q])
for g, q, e in ((6, 0, "aux"), (14, 0, "aux"), (10, 1, "aux"), (14, 1, "exp"), (6, 1, "hyb"), (7, 1, "def")):
    h("c02", "q", "co", "dc", e, 2, g, [q])
h("c02", "q", "pr", "dc", "exp", 2, 2, [1])
h("c02", "q", "gr", "dc", "def", 2, 10, [0], pres="s1")
h("c02", "q", "st", "dc", "def", 3, 42, [2])
for g in (2, 6, 10, 14, 8, 7, 11):
    for q in (0, 1):
        h("c02", "t", "st", "dc", "def", 2, g, [q])
for g in (6, 14, 7, 10, 0):
    for q in (0, 1):
        h("c02", "t", "co", "dc", "aux", 2, g, [q])
for g, q, e, p in ((6, 0, "exp", "pl"), (14, 0, "hyb", "pl"), (6, 1, "aux", "du"), (14, 1, "aux", "s1"), (2, 0, "def", "s2")):
    h("c02", "t", "co", "dc", e, 2, g, [q], pres=p)
for g, q in ((42, 0), (42, 1), (98, 0), (290, 0), (8, 0), (34, 2)):
    h("c02", "t", "st", "dc", "def", 3, g, [q])
for g, q in ((137, 2), (42, 2), (290, 1)):
    h("c02", "t", "co", "dc", "aux", 3, g, [q])
for g, q in ((290, 2), (42, 0)):
    h("c02", "t", "gr", "dc", "def", 3, g, [q], pres="du")

# ------------------------------------------------------------------ C03 skeptical, no certificate
for g, q in ((2, 0), (6, 0), (10, 1), (14, 0), (8, 0), (9, 1)):
    h("c03", "q", "st", "ds", "def", 2, g, [q])
for g, q, p in ((2, 1, "pl"), (6, 0, "du"), (10, 0, "s1")):
    h("c03", "q", "gr", "ds", "def", 2, g, [q], pres=p)
h("c03", "q", "co", "ds", "def", 2, 2, [0], pres="s2")
h("c03", "q", "st", "ds", "def", 3, 42, [0])
h("c03", "q", "gr", "ds", "def", 3, 290, [2], pres="du")
for g in (2, 6, 10, 14, 0, 7, 11):
    for q in (0, 1):
        h("c03", "t", "st", "ds", "def", 2, g, [q])
for g, q, p in ((6, 1, "s1"), (14, 1, "du"), (2, 1, "s2")):
    h("c03", "t", "st", "ds", "def", 2, g, [q], pres=p)
for g, q in ((42, 1), (42, 2), (98, 1), (290, 0), (8, 2), (34, 1)):
    h("c03", "t", "st", "ds", "def", 3, g, [q])
for g, q in ((34, 2), (42, 2), (290, 1), (137, 0)):
    h("c03", "t", "gr", "ds", "def", 3, g, [q], pres="du")

# ------------------------------------------------------------------ C04 certificates
# (three isolated arguments, DC-CO with certificate - the certificate must be completed on every other component - was
# measured out of reach: CBMC out of memory above 24 GB on its own, 16 cores / 62 GB; not generated)
for g, q in ((0, 0), (2, 0), (6, 1), (14, 0)):
    h("c04", "q", "st", "dc", "def", 2, g, [q])
for g, q in ((6, 0), (10, 0), (2, 1)):
    h("c04", "q", "st", "ds", "def", 2, g, [q])
for g, q, e, p in ((6, 0, "aux", "pl"), (14, 0, "aux", "s1"), (0, 1, "exp", "pl")):
    h("c04", "q", "co", "dc", e, 2, g, [q], pres=p)
h("c04", "q", "gr", "ds", "def", 2, 2, [1])
h("c04", "q", "gr", "dc", "def", 2, 2, [0], pres="s2")
h("c04", "q", "st", "dc", "def", 3, 8, [2])
for g in (0, 2, 6, 14, 8):
    for q in (0, 1):
        h("c04", "t", "st", "dc", "def", 2, g, [q])
        h("c04", "t", "st", "ds", "def", 2, g, [q])
for g, q, e, p in ((6, 1, "aux", "du"), (14, 1, "exp", "pl"), (6, 0, "hyb", "pl"), (0, 0, "aux", "s2"), (7, 1, "aux", "pl"), (2, 1, "pr", "pl")):
    if e == "pr":
        h("c04", "t", "pr", "dc", "exp", 2, g, [q], pres=p)
    else:
        h("c04", "t", "co", "dc", e, 2, g, [q], pres=p)
for g, q in ((42, 0), (42, 2), (0, 1), (2, 2), (98, 0)):
    h("c04", "t", "st", "dc", "def", 3, g, [q])
for g, q in ((42, 1), (8, 0), (34, 1)):
    h("c04", "t", "st", "ds", "def", 3, g, [q])
for g, q in ((0, 1), (2, 2), (42, 0), (8, 2)):
    h("c04", "t", "co", "dc", "aux", 3, g, [q])

# ------------------------------------------------------------------ C07 lists of arguments
for g, q in ((6, [0, 1]), (0, [0, 1]), (14, [1, 0])):
    h("c07", "q", "co", "dc", "aux", 2, g, q, cert=True)
h("c07", "q", "co", "dc", "aux", 2, 6, [0, 1], cert=False, checks="ANSWER")
for g, q in ((2, [1, 0]), (0, [0, 1]), (9, [0, 0]), (10, [1, 0])):
    h("c07", "q", "st", "dc", "def", 2, g, q, cert=True)
for g, q in ((6, [0, 1]), (2, [1, 1])):
    h("c07", "q", "st", "ds", "def", 2, g, q, cert=True)
h("c07", "q", "gr", "ds", "def", 2, 2, [1, 0], cert=True)
h("c07", "q", "st", "dc", "def", 3, 8, [0, 2], cert=True)
h("c07", "q", "st", "dc", "def", 3, 2, [1, 2], cert=False, checks="ANSWER")
for g, q in ((6, [1, 0]), (14, [0, 1]), (7, [0, 1]), (0, [1, 1])):
    h("c07", "t", "co", "dc", "exp", 2, g, q, cert=True)
for g, q in ((8, [0, 1]), (6, [0, 0]), (14, [0, 1]), (2, [0, 1])):
    h("c07", "t", "st", "dc", "def", 2, g, q, cert=False, checks="ANSWER")
    h("c07", "t", "st", "ds", "def", 2, g, q, cert=True)
for g, q in ((8, [2, 0]), (2, [2, 1]), (42, [0, 2]), (0, [0, 2]), (34, [1, 2])):
    h("c07", "t", "st", "dc", "def", 3, g, q, cert=True)
for g, q in ((0, [0, 2]), (2, [1, 2]), (42, [1, 2])):
    h("c07", "t", "co", "dc", "aux", 3, g, q, cert=True)

# ------------------------------------------------------------------ C16 (a) header
for g, q in ((2, [0]), (6, [1]), (0, [0, 1]), (14, [0])):
    h("c16", "q", "st", "dc", "def", 2, g, q, cert=False)
for g, q, e in ((6, [0], "aux"), (14, [0, 1], "exp")):
    h("c16", "q", "co", "dc", e, 2, g, q, cert=True)
h("c16", "q", "st", "ds", "def", 2, 6, [0, 1], cert=True)
h("c16", "q", "st", "se", "def", 2, 6, [], cert=False)
for g, q in ((10, [1]), (9, [0]), (8, [1, 0])):
    h("c16", "t", "st", "dc", "def", 2, g, q, cert=True)
h("c16", "t", "co", "dc", "hyb", 2, 6, [1], cert=False)
h("c16", "t", "st", "dc", "def", 3, 42, [2], cert=True)
h("c16", "t", "st", "dc", "def", 3, 8, [0, 2], cert=False)

# ------------------------------------------------------------------ C17 fault injection (per-property mode)
h("c17", "q", "st", "dc", "def", 2, 6, [0], cert=True, fault=2)
h("c17", "q", "st", "dc", "def", 2, 2, [1], cert=True, fault=2)
h("c17", "q", "co", "dc", "aux", 2, 2, [1], cert=False, fault=2)
h("c17", "t", "st", "dc", "def", 2, 0, [0, 1], cert=False, fault=3)
h("c17", "q", "st", "se", "def", 2, 6, [], cert=False, fault=2)
h("c17", "t", "st", "ds", "def", 2, 0, [0], cert=True, fault=3)
h("c17", "t", "st", "dc", "def", 2, 10, [0], cert=False, fault=2)
h("c17", "t", "st", "dc", "def", 2, 2, [0], cert=False, fault=2)
h("c17", "t", "st", "dc", "def", 2, 6, [1], cert=False, fault=2)
h("c17", "t", "co", "dc", "exp", 2, 14, [0], cert=True, fault=2)
h("c17", "q", "st", "ds", "def", 2, 6, [1], cert=False, fault=2)
h("c17", "t", "st", "se", "def", 2, 0, [], cert=False, fault=3)

# ------------------------------------------------------------------ C18 calls
for g, q in ((0, [0, 1]), (6, [0]), (10, [1])):
    h("c18", "q", "st", "dc", "def", 2, g, q, cert=True)
for g, q in ((6, [0]), (14, [0, 1])):
    h("c18", "q", "co", "dc", "aux", 2, g, q, cert=True)
h("c18", "q", "st", "dc", "def", 2, 2, [1, 1], cert=False)
h("c18", "q", "st", "ds", "def", 2, 2, [1], cert=False)
h("c18", "t", "st", "dc", "def", 3, 6, [1, 2], cert=True)
h("c18", "t", "st", "dc", "def", 2, 14, [1, 1], cert=True)
h("c18", "q", "st", "se", "def", 2, 0, [], cert=False)
h("c18", "t", "st", "ds", "def", 2, 0, [0, 1], cert=True)
h("c18", "t", "co", "dc", "exp", 2, 0, [0, 1], cert=False)
h("c18", "t", "st", "dc", "def", 3, 0, [0, 2], cert=True)

# ------------------------------------------------------------------ iterative solvers, "UNSAT-first" cases only
# PR (SE/DS), SST, STG, ID are out of CBMC's reach as soon as the backend returns a model (DESIGN.md section 2).  On
# frameworks whose grounded extension already is the answer, every SAT call is unsatisfiable and the whole query runs
# on concrete data: these cases are cheap and exercise the set-up, blocking clauses, selectors, Unknown handling and
# certificate assembly of the iterative solvers.  Candidates are generated here and filtered by lib/select_unsat_first.py.
ITER = []
for sem, encs in (("pr", ("adm", "exp", "hyb")), ("sst", ("aux", "exp")), ("stg", ("acf", "ecf")), ("id", ("aux", "exp"))):
    for enc in encs:
        for n, g in (((2, 2), (2, 0), (3, 34)) if enc == encs[0] else ((2, 2),)):
            ITER.append(("c01", sem, "se", enc, n, g, []))
            for q in range(n):
                ITER.append(("c03", sem, "ds", enc, n, g, [q]))
                if sem != "pr":
                    ITER.append(("c02", sem, "dc", enc, n, g, [q]))
iter_names = []
for prop, sem, kind, enc, n, g, q in ITER:
    before = len(out)
    tier = "q" if (n == 2 and g == 2 and enc in ("adm", "aux", "acf")) else "t"
    h(prop, tier, sem, kind, enc, n, g, q)
    if len(out) > before:
        iter_names.append(out[-1].split("(")[1].split(",")[0])
    if kind != "se" and enc in ("adm", "aux", "acf") and n == 2:
        before = len(out)
        h("c04", tier, sem, kind, enc, n, g, q, cert=True)
        if len(out) > before:
            iter_names.append(out[-1].split("(")[1].split(",")[0])
# fault injection on the iterative solvers (the first SAT call fails)
for sem, enc in (("pr", "adm"), ("sst", "aux"), ("stg", "ecf"), ("id", "aux")):
    before = len(out)
    h("c17", "q" if sem == "pr" else "t", sem, "se", enc, 2, 2, [], cert=False, fault=101)
    if len(out) > before:
        iter_names.append(out[-1].split("(")[1].split(",")[0])
    before = len(out)
    h("c17", "t", sem, "ds", enc, 2, 2, [1], cert=True, fault=101)
    if len(out) > before:
        iter_names.append(out[-1].split("(")[1].split(",")[0])
import json as _json
_json.dump(iter_names, open(os.path.join(os.path.dirname(HERE), "kani", "iterative_candidates.json"), "w"))
keep_path = os.path.join(os.path.dirname(HERE), "kani", "iterative_keep.json")
if os.path.exists(keep_path):
    keep = set(_json.load(open(keep_path)))
    out = [l for l in out if l.split("(")[1].split(",")[0] not in set(iter_names) or l.split("(")[1].split(",")[0] in keep]
    catalogue = {k: v for k, v in catalogue.items() if k not in set(iter_names) or k in keep}

text = open(PATH).read()
marker = "// GENERATED-BELOW (lib/gen_harnesses.py)\n"
i = text.index(marker) + len(marker)
text = text[:i] + "\n".join(out) + "\n"
open(PATH, "w").write(text)
import json
json.dump(catalogue, open(os.path.join(os.path.dirname(HERE), "kani", "harness_catalogue.json"), "w"), indent=0, sort_keys=True)
print(len(out), "harnesses")
import collections
print(collections.Counter((n.split("(")[1].split("_")[0], n.split("_")[1]) for n in out))
