#!/usr/bin/env python3
"""Filters the generated iterative-solver harness candidates (kani/iterative_candidates.json): a candidate is kept when,
on the natively compiled harness body and over every behaviour of the oracle, the backend never returns a model
(SAT_ANSWERS 0) and nothing fails except the panic a C17 harness expects.  This is a selection of which harnesses are
within CBMC's reach (DESIGN.md section 2), not a verification step: the kept harnesses are decided by CBMC.
Usage: rm kani/iterative_keep.json; gen_harnesses.py; select_unsat_first.py; gen_harnesses.py"""
import json
import os
import subprocess
import sys

HERE = os.path.dirname(os.path.abspath(__file__))
ROOT = os.path.dirname(HERE)
sys.path.insert(0, HERE)
import kani_replay

EXPECTED = "cannot unwrap solving result when the solver returned"
kani_replay.build()
cands = json.load(open(os.path.join(ROOT, "kani", "iterative_candidates.json")))
keep = []
for c in cands:
    out = subprocess.run([os.path.join(kani_replay.NATIVE, "target", "release", "explore"), "satcount-all", c], capture_output=True, text=True, timeout=600).stdout
    sat = [l for l in out.splitlines() if l.startswith("SAT_ANSWERS")]
    fails = [l for l in out.splitlines() if l.startswith("FAILURE") and not (c.startswith("c17") and EXPECTED in l)]
    ok = bool(sat) and sat[0].split()[1] == "0" and not fails
    print("keep" if ok else "drop", c, sat[0] if sat else out[-200:], fails[:1])
    if ok:
        keep.append(c)
json.dump(keep, open(os.path.join(ROOT, "kani", "iterative_keep.json"), "w"), indent=0)
print(len(keep), "of", len(cands), "kept")
