#!/usr/bin/env python3
"""usage: seed_store.py <Cxx> <n> "<needs>" : verifies /tmp/seed/<Cxx>.out/{patch,demo,notes}<n> and stores it as /verif/seeded/<Cxx>-<n>/"""
import json, os, shutil, subprocess, sys
prop, n, needs = sys.argv[1], sys.argv[2], sys.argv[3]
src = "/tmp/seed/%s.out" % prop
dst = "/verif/seeded/%s-%s" % (prop, n)
r = subprocess.run(["/verif/lib/seed_verify.sh", "%s/patch%s.diff" % (src, n), "%s/demo%s.rs" % (src, n)], capture_output=True, text=True)
out = [l for l in r.stdout.splitlines() if l.startswith(("SUITE", "DEMO", "APPLY"))]
print("\n".join(out))
ok = (len(out) == 3 and " 0 failed" in out[0] and "FAILED" in out[1] and "test result: ok" in out[2])
if not ok:
    print("NOT STORED")
    sys.exit(1)
os.makedirs(dst, exist_ok=True)
shutil.copy("%s/patch%s.diff" % (src, n), dst + "/patch.diff")
shutil.copy("%s/demo%s.rs" % (src, n), dst + "/demo.rs")
if os.path.exists("%s/notes%s.md" % (src, n)):
    shutil.copy("%s/notes%s.md" % (src, n), dst + "/notes.md")
head = subprocess.run(["git", "-C", "/repo", "rev-parse", "--short", "HEAD"], capture_output=True, text=True).stdout.strip()
meta = {"id": "%s-%s" % (prop, n), "property": prop, "needs_to_manifest": needs, "base_commit": head,
        "verified": {"command": "lib/seed_verify.sh patch.diff demo.rs (scratch worktree /tmp/seedv: git apply --3way; cargo test --workspace --offline; cargo test --test demo with and without the patch)",
                     "results": out},
        "detected_by": "to be filled"}
json.dump(meta, open(dst + "/meta.json", "w"), indent=1)
print("stored", dst)
