"""Shared driver code: result object, evidence writer, exit protocol."""
import json
import os
import subprocess
import sys
import time

VERIF = os.path.dirname(os.path.dirname(os.path.abspath(__file__)))
REPO = "/repo"
WORK = os.path.join(VERIF, ".work")
EVIDENCE = os.path.join(VERIF, "evidence")
REPLAYS = os.path.join(VERIF, "replays")

TRUSTED_KANI = [
    "Kani 0.68.0 MIR->goto translation, CBMC 6.11.0 symbolic execution and its CaDiCaL back end, rustc (Kani's pinned toolchain)",
    "cfg(kani) only: std::collections::HashMap in utils/label.rs replaced by the association list verif_hooks::VecMap (hook H2)",
    "stubs: alloc::fmt::format -> String::new(), std::backtrace::Backtrace::capture -> Backtrace::disabled(), "
    "<anyhow::Error as Drop>::drop -> no-op (error values leak; their occurrence is preserved)",
]


def repo_state():
    """Identifies the working tree the check ran against (HEAD + dirty flag)."""
    try:
        head = subprocess.run(["git", "-C", REPO, "rev-parse", "--short", "HEAD"], capture_output=True, text=True).stdout.strip()
        dirty = subprocess.run(["git", "-C", REPO, "status", "--porcelain", "--untracked-files=no"], capture_output=True, text=True).stdout.strip()
        return head + ("+dirty" if dirty else "")
    except Exception:
        return "unknown"


def load_known_findings():
    p = os.path.join(VERIF, "known_findings.json")
    if not os.path.exists(p):
        return {"findings": [], "fixed": []}
    return json.load(open(p))


class Result:
    def __init__(self, prop, tier, seed, level):
        self.prop = prop
        self.tier = tier
        self.seed = seed
        self.level = level
        self.coverage = {}
        self.assumptions = []
        self.violations = []      # list of (description, replay_path)
        self.known = []           # list of descriptions
        self.inconclusive = []    # list of descriptions
        self.t0 = time.time()

    def finish(self):
        wall = round(time.time() - self.t0, 2)
        ev = {
            "property_id": self.prop, "tier": self.tier, "seed": self.seed, "level": self.level,
            "coverage": self.coverage, "assumptions": self.assumptions, "wall_s": wall,
            "violations": len(self.violations),
            "known_findings_reported": self.known,
            "inconclusive": self.inconclusive,
            "repo_state": repo_state(),
        }
        os.makedirs(EVIDENCE, exist_ok=True)
        with open(os.path.join(EVIDENCE, self.prop + ".json"), "w") as f:
            json.dump(ev, f, indent=1, sort_keys=True)
            f.write("\n")
        for k in self.known:
            print("KNOWN-FINDING: property=%s %s" % (self.prop, k))
        for desc, path in self.violations:
            print("VIOLATION property=%s replay=%s" % (self.prop, path))
            print("  " + desc)
        if self.violations:
            return 1
        if self.inconclusive:
            for i in self.inconclusive:
                print("INCONCLUSIVE property=%s %s" % (self.prop, i))
            return 2
        print("OK property=%s tier=%s wall_s=%s" % (self.prop, self.tier, wall))
        return 0


def write_replay(prop, name, payload):
    os.makedirs(REPLAYS, exist_ok=True)
    p = os.path.join(REPLAYS, "%s_%s.json" % (prop, name))
    with open(p, "w") as f:
        json.dump(payload, f, indent=1, sort_keys=True)
        f.write("\n")
    return p


def build_native(crate_dir, extra=()):
    """Builds a native helper crate against /repo's current working tree (path dependency); returns (ok, log)."""
    env = dict(os.environ, CARGO_NET_OFFLINE="true")
    r = subprocess.run(["cargo", "build", "--offline", "--quiet"] + list(extra), cwd=crate_dir, env=env, capture_output=True, text=True)
    return r.returncode == 0, (r.stdout + r.stderr)[-3000:]
