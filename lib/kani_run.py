"""Runs Kani proof harnesses of /verif/kani against /repo's current working tree and interprets the results.

One `cargo kani` invocation per group: the harness crate has a path dependency on /repo, so crustabri is recompiled by
the Kani compiler whenever its sources changed; CBMC then decides every assertion of every selected harness.

Verdict mapping (per harness):
  * every check SUCCESS, every cover SATISFIED                          -> pass
  * a failed check whose description starts with a property tag (C01:..) -> candidate violation (replayed natively)
  * a failed unwinding assertion, time-out, out-of-memory, CBMC error, HARNESS: failure, unsatisfied cover
                                                                         -> inconclusive (never a pass)
  * any other failed check (a panic inside crustabri, an unsupported construct reached)
                                                                         -> candidate violation of panic-freedom, or
                                                                            expected (whitelisted by the caller, e.g.
                                                                            the unwrap_model panic under fault injection)
"""
import json
import os
import re
import subprocess
import time

from common import VERIF, WORK, TRUSTED_KANI

KANI_DIR = os.path.join(VERIF, "kani")

BASE_FLAGS = ["-Z", "stubbing", "-Z", "unstable-options",
              "--no-memory-safety-checks", "--no-overflow-checks", "--no-undefined-function-checks"]
CBMC_FLAGS = ["--max-field-sensitivity-array-size", "2048"]


def list_harnesses():
    """Harness names declared in the harness crate (from the source: `fn name()` after #[kani::proof], or the first
    argument of a `*_harness!(` macro call)."""
    names = []
    src = os.path.join(KANI_DIR, "src")
    for f in sorted(os.listdir(src)):
        if not f.endswith(".rs"):
            continue
        text = open(os.path.join(src, f)).read()
        mod = f[:-3]
        for m in re.finditer(r"^\s*[a-z_]+_harness!\(\s*([a-z0-9_]+)\s*,", text, re.M):
            names.append((mod, m.group(1)))
        for m in re.finditer(r"kani::proof\)?\][^{]*?fn\s+([a-z0-9_]+)\s*\(", text, re.S):
            if "$" not in m.group(1):
                names.append((mod, m.group(1)))
    return names


def select(prefixes):
    out = []
    for mod, n in list_harnesses():
        if any(n.startswith(p) for p in prefixes):
            out.append("%s::%s" % (mod, n))
    return sorted(set(out))


class HarnessResult:
    def __init__(self, name):
        self.name = name
        self.status = "missing"   # pass | fail | inconclusive | missing
        self.failed = []          # descriptions of failed checks
        self.checks = 0
        self.covers_sat = 0
        self.covers_total = 0
        self.time_s = 0.0
        self.notes = []


def _parse_block(r, b):
    m = re.search(r"\*\* (\d+) of (\d+) failed", b)
    if m:
        r.checks = int(m.group(2))
    m = re.search(r"\*\* (\d+) of (\d+) cover properties satisfied", b)
    if m:
        r.covers_sat, r.covers_total = int(m.group(1)), int(m.group(2))
    m = re.search(r"Verification Time: ([0-9.]+)s", b)
    if m:
        r.time_s = float(m.group(1))
    # regular format: "Check N: cls\n\t - Status: FAILURE\n\t - Description: "...""
    for cm in re.finditer(r"Check \d+: ([^\n]*)\n\s*- Status: (FAILURE|UNDETERMINED|UNREACHABLE|UNSATISFIABLE)\n\s*- Description: \"((?:[^\"\\]|\\.)*)\"", b):
        cls, st, desc = cm.group(1), cm.group(2), cm.group(3)
        if ".cover." in cls or cls.endswith(".cover"):
            if st in ("UNSATISFIABLE", "UNREACHABLE", "UNDETERMINED"):
                r.notes.append("cover not satisfied: %s (%s)" % (desc, st))
            continue
        if st == "FAILURE":
            r.failed.append(desc if ".unwind" not in cls else "UNWIND: " + desc + " @ " + cls)
        elif st == "UNDETERMINED":
            r.notes.append("undetermined: " + desc)
    # terse format: "Failed Checks: <description>\n File: "...", line N, in f"
    for fm in re.finditer(r"Failed Checks: ([^\n]*)\n\s*File: ([^\n]*)", b):
        desc, where = fm.group(1).strip(), fm.group(2).strip()
        d = ("UNWIND: " + desc) if desc.startswith("unwinding assertion") else desc
        if d not in r.failed:
            r.failed.append(d + "  @ " + where if not TAG.match(d) and not d.startswith("UNWIND") and not d.startswith("HARNESS") else d)
    if "VERIFICATION:- SUCCESSFUL" in b:
        r.status = "pass"
    elif "VERIFICATION:- FAILED" in b:
        r.status = "fail"
    else:
        r.status = "inconclusive"
        r.notes.append("no verdict line (time-out, out of memory or CBMC crash)")
    if re.search(r"CBMC failed|CBMC timed out|Status: ERROR|out of memory", b):
        r.status = "inconclusive"
        r.notes.append("CBMC error: " + ("out of memory" if "out of memory" in b else ("timed out" if "timed out" in b else "failed")))
    if r.status == "fail" and not r.failed:
        um = re.search(r"\*\* (\d+) of (\d+) cover properties satisfied", b)
        if "unwinding" in b:
            r.failed.append("UNWIND: unwinding assertion failed")
        elif not um or um.group(1) == um.group(2):
            r.status = "inconclusive"
            r.notes.append("FAILED without an identifiable failed check")


def parse(output, names):
    """Parses Kani output of one or several harnesses (regular sequential format, or terse format of parallel runs
    where each block is attributed through its `Thread N:` prefix)."""
    results = {n: HarnessResult(n) for n in names}

    def get(name):
        if name not in results:
            results[name] = HarnessResult(name)
        return results[name]

    if re.search(r"^Thread \d+: Checking harness", output, re.M):
        thread_h = {}
        cur = None
        buf = []
        def flush():
            if cur is not None and cur in thread_h and buf:
                _parse_block(get(thread_h[cur]), "\n".join(buf))
        for line in output.splitlines():
            m = re.match(r"^Thread (\d+): Checking harness (\S+?)\.\.\.", line)
            if m:
                flush()
                buf = []
                cur = None
                thread_h[int(m.group(1))] = m.group(2)
                continue
            m = re.match(r"^Thread (\d+):\s*$", line)
            if m:
                flush()
                buf = []
                cur = int(m.group(1))
                continue
            if re.match(r"^Thread \d+: ", line):
                continue
            if line.startswith("Manual Harness Summary") or line.startswith("Complete - "):
                flush()
                buf = []
                cur = None
                continue
            if cur is not None:
                buf.append(line)
        flush()
        return results
    blocks = re.split(r"^Checking harness ", output, flags=re.M)
    for b in blocks[1:]:
        name = b.split("...", 1)[0].strip()
        _parse_block(get(name), b)
    return results


def run_kani(names, timeout_s, jobs=8, unwind=None, extra_cbmc=(), target="kani-target", harness_timeout=None, single_query=True):
    """single_query: CBMC's --stop-on-fail (one SAT query for all properties of a harness instead of one per property,
    4x faster on these harnesses); needs Kani's reachability checks and cover properties off (both are 'failing'
    assertions by design).  With single_query=False the harness crate is built with feature `covers`."""
    os.makedirs(WORK, exist_ok=True)
    env = dict(os.environ)
    env["CARGO_NET_OFFLINE"] = "true"
    cmd = ["cargo", "kani"] + BASE_FLAGS
    if single_query:
        cmd += ["--no-assertion-reach-checks"]
        extra_cbmc = list(extra_cbmc) + ["--stop-on-fail"]
    else:
        cmd += ["--features", "covers"]
    for n in names:
        cmd += ["--harness", n]
    cmd += ["--exact", "--target-dir", os.path.join(WORK, target)]
    if jobs and jobs > 1 and len(names) > 1:
        cmd += ["-j", str(min(jobs, len(names))), "--output-format", "terse"]
    if harness_timeout:
        cmd += ["--harness-timeout", "%ds" % harness_timeout]
    cmd += ["--cbmc-args"] + CBMC_FLAGS + list(extra_cbmc)
    # the harness filter is part of the compiler invocation but not of cargo's fingerprint: force the harness crate
    # (not its dependencies) to be recompiled so that exactly the requested harnesses are generated
    try:
        os.utime(os.path.join(KANI_DIR, "src", "lib.rs"), None)
    except OSError:
        pass
    t0 = time.time()
    try:
        p = subprocess.run(cmd, cwd=KANI_DIR, env=env, capture_output=True, text=True, timeout=timeout_s)
        out = p.stdout + "\n" + p.stderr
        timed_out = False
    except subprocess.TimeoutExpired as e:
        out = (e.stdout.decode() if isinstance(e.stdout, bytes) else (e.stdout or "")) + "\n" + \
              (e.stderr.decode() if isinstance(e.stderr, bytes) else (e.stderr or ""))
        timed_out = True
        subprocess.run(["pkill", "-x", "cbmc"])
    wall = time.time() - t0
    # the per-harness goto binaries are 40-80 MB each: remove them, keep the compiled dependencies
    import glob
    for f in glob.glob(os.path.join(WORK, target, "kani", "*", "debug", "build", "crustabri-verif", "*", "out", "*.out")) + \
            glob.glob(os.path.join(WORK, target, "kani", "*", "debug", "build", "crustabri-verif", "*", "out", "*.json")):
        try:
            os.remove(f)
        except OSError:
            pass
    log = os.path.join(WORK, "last_%s.log" % target)
    with open(log, "w") as f:
        f.write(" ".join(cmd) + "\n" + out)
    return out, wall, timed_out, log


TAG = re.compile(r"^(C\d\d)\b")


def run_group(res, prop, prefixes, tier, expected_panics=(), jobs=6, timeout_s=None, also_tags=(), single_query=True):
    """Runs every harness whose name starts with one of `prefixes` followed by the tier letter:
         quick    : `<p>q_`                      (light harnesses: <= 8 GB, <= 150 s of CBMC each, `jobs` in parallel)
         thorough : `<p>q_`, `<p>t_` in parallel, then `<p>x_` ONE AT A TIME (25-37 GB and 7-10 minutes each).
    Fills `res` (violations are only *candidates* here: the caller replays them) and returns a coverage fragment."""
    groups = [([p + "q_" for p in prefixes] + ([p + "t_" for p in prefixes] if tier == "thorough" else []), jobs)]
    if tier == "thorough":
        groups.append(([p + "x_" for p in prefixes], 1))
    frag = {"mode": "one SAT query per harness (--stop-on-fail, no reachability instrumentation)" if single_query else
            "one SAT query per property, reachability witnesses (kani::cover) on",
            "harnesses": [], "checks_discharged": 0, "covers_satisfied": 0, "kani_wall_s": 0.0, "logs": [], "candidates": []}
    any_selected = False
    split = []
    for pf, j in groups:
        sel = select(pf)
        # harnesses named *_pp_* contain a check that is expected to fail (a documented panic): they always run in
        # per-property mode, apart from the others
        pp = [n for n in sel if "_pp_" in n]
        rest = [n for n in sel if "_pp_" not in n]
        if rest:
            split.append((rest, j, single_query))
        if pp:
            split.append((pp, j, False))
    for names, j, single_query in split:
        any_selected = True
        t_budget = timeout_s if timeout_s is not None else (1800 if tier == "quick" else 7200)
        if j == 1:
            t_budget = max(t_budget, 1000 * len(names))
        out, wall, timed_out, log = run_kani(names, t_budget, jobs=j, harness_timeout=(900 if j > 1 else 1500), single_query=single_query,
                                             target="kani-target")
        frag["kani_wall_s"] = round(frag["kani_wall_s"] + wall, 1)
        frag["logs"].append(log)
        if "error: could not compile" in out or "Failed to execute cargo" in out or "error[E" in out:
            res.inconclusive.append("the harness crate does not compile against /repo's working tree (see %s): %s" % (
                log, " | ".join(re.findall(r"^error[^\n]*", out, re.M)[:3])))
            continue
        results = parse(out, names)
        # In single-query mode a harness whose query is satisfiable (some property violated) makes kani-driver's output
        # parser panic, which also loses the harnesses still in flight.  Those harnesses are run again in the ordinary
        # one-query-per-property mode, whose failures Kani reports per check.  (Only happens on a tree that breaks something.)
        lost = [n for n in names if results[n].status in ("missing",) or
                (results[n].status == "inconclusive" and any("no verdict line" in x for x in results[n].notes))]
        if single_query and lost and ("panicked at kani-driver" in out or "cbmc_output_parser" in out):
            out2, wall2, to2, log2 = run_kani(lost, t_budget, jobs=min(j, 4), harness_timeout=(1200 if j > 1 else 1800), single_query=False,
                                              target="kani-target")
            frag["kani_wall_s"] = round(frag["kani_wall_s"] + wall2, 1)
            frag["logs"].append(log2 + " (second pass, per-property mode, for %d harnesses)" % len(lost))
            if os.path.exists(log2):
                try:
                    os.replace(log2, log2.replace(".log", "_pass2.log"))
                except OSError:
                    pass
            results2 = parse(out2, lost)
            for n in lost:
                results[n] = results2[n]
        for n in names:
            r = results[n]
            frag["harnesses"].append({"name": n, "status": r.status, "checks": r.checks, "covers": "%d/%d" % (r.covers_sat, r.covers_total),
                                      "cbmc_s": r.time_s, "failed": r.failed[:4], "notes": r.notes[:4]})
            frag["checks_discharged"] += max(0, r.checks - len(r.failed))
            frag["covers_satisfied"] += r.covers_sat
            if r.status in ("missing", "inconclusive"):
                res.inconclusive.append("%s: %s" % (n, "; ".join(r.notes) or "no result (time-out?)"))
                continue
            for d in r.failed:
                if d.startswith("UNWIND:"):
                    res.inconclusive.append("%s: unwinding bound too small: %s" % (n, d))
                elif d.startswith("HARNESS:"):
                    res.inconclusive.append("%s: %s" % (n, d))
                elif any(e in d for e in expected_panics):
                    pass
                else:
                    frag["candidates"].append((n, d))
            if r.covers_total and r.covers_sat < r.covers_total and not r.failed:
                res.inconclusive.append("%s: %d of %d reachability witnesses not satisfied: %s" % (
                    n, r.covers_total - r.covers_sat, r.covers_total, "; ".join(r.notes[:3])))
    if not any_selected:
        res.inconclusive.append("no harness selected for %r" % (prefixes,))
    return frag
