//! Native self-test / replay tool of the harness crate (development aid and counterexample replay; NOT the deciding
//! step of any check): runs the harness bodies on the real crustabri code with every oracle behaviour enumerated
//! depth-first, for all frameworks with N arguments.
//!
//! usage: explore static <N> [max_runs_per_case]
use crustabri_verif::nd::native;
use crustabri_verif::oracle::Shared;
use crustabri_verif::spec::Sem;
use crustabri_verif::statics::*;
use crustabri_verif::util::graph_from_code;
use std::collections::BTreeMap;
mod registry;
use std::rc::Rc;

fn encs(sem: Sem, kind: Kind) -> Vec<Enc> {
    match (sem, kind) {
        (Sem::GR, _) | (Sem::ST, _) | (Sem::CO, Kind::SE) | (Sem::CO, Kind::DS) => vec![Enc::Default],
        (Sem::STG, _) => vec![Enc::Default, Enc::AuxCf, Enc::ExpCf],
        (Sem::PR, Kind::SE) => vec![Enc::Default, Enc::AuxAdm, Enc::AuxCo, Enc::ExpCo, Enc::Hybrid],
        _ => vec![Enc::Default, Enc::AuxCo, Enc::ExpCo, Enc::Hybrid],
    }
}

fn run_n<const N: usize>(max_runs: usize, only_single: bool) {
    let sems = [Sem::GR, Sem::CO, Sem::PR, Sem::ST, Sem::SST, Sem::STG, Sem::ID];
    let kinds = [Kind::SE, Kind::DC, Kind::DS];
    let mut summary: BTreeMap<String, (usize, usize, Vec<String>)> = BTreeMap::new();
    let mut total_runs = 0usize;
    for code in 0..(1u32 << (N * N)) {
        let g = graph_from_code::<N>(code);
        for sem in sems {
            let sp = spec_of::<N>(sem, code);
            for kind in kinds {
                let mut queries: Vec<Vec<usize>> = vec![];
                if kind == Kind::SE {
                    queries.push(vec![]);
                } else {
                    for a in 0..N {
                        queries.push(vec![a]);
                    }
                    if !only_single {
                        for a in 0..N {
                            for b in 0..N {
                                queries.push(vec![a, b]);
                            }
                        }
                    }
                }
                for enc in encs(sem, kind) {
                    for pres in [Pres::Plain, Pres::Dup, Pres::SparseFirst, Pres::SparseMid] {
                        for q in &queries {
                            for cert in [false, true] {
                                if kind == Kind::SE && cert {
                                    continue;
                                }
                                let checks = Checks { answer: true, certificate: true, header: true, fault: false, calls: true };
                                let f = || {
                                    let af = build::<N>(&g, pres);
                                    let sh = Rc::new(Shared::default());
                                    sh.allow_none.set(true);
                                    query::<N, 64>(&af, &sp, pres, sem, enc, kind, q, cert, checks, &sh);
                                };
                                let (runs, _disc, failures) = native::explore(f, max_runs);
                                total_runs += runs;
                                for (script, msg) in failures {
                                    let key = format!("{:?}/{:?}/{:?} len={} cert={} :: {}", sem, kind, enc, q.len(), cert, msg);
                                    let e = summary.entry(key).or_insert((0, 0, vec![]));
                                    e.0 += 1;
                                    if e.2.len() < 3 {
                                        e.2.push(format!("N={} code={} pres={:?} q={:?} script={:?}", N, code, pres, q, script));
                                    }
                                }
                                if runs >= max_runs {
                                    let e = summary.entry("EXPLORATION TRUNCATED".to_string()).or_insert((0, 0, vec![]));
                                    e.0 += 1;
                                }
                            }
                        }
                    }
                }
            }
        }
    }
    println!("N={} total runs {}", N, total_runs);
    for (k, (n, _, ex)) in summary {
        println!("{:6} x {}", n, k);
        for e in ex {
            println!("          e.g. {}", e);
        }
    }
}

fn run_dynamic(events: usize, allow_bad: bool, labels: u32, max_runs: usize) {
    use crustabri_verif::dynamics::*;
    let mut summary: BTreeMap<String, (usize, Vec<String>)> = BTreeMap::new();
    for which in [Dyn::Complete, Dyn::Stable, Dyn::Preferred, Dyn::DummyCoPr, Dyn::DummySt, Dyn::CompleteAttacks, Dyn::StableAttacks] {
        let attacks = matches!(which, Dyn::CompleteAttacks | Dyn::StableAttacks);
        let plan = Plan { events, allow_bad, labels: if attacks { labels.min(2) } else { labels }, arg_factor: 1.0, fixed: None };
        let f = || {
            let sh = Rc::new(Shared::default());
            sh.allow_none.set(true);
            history::<64>(which, plan, &sh);
        };
        let t0 = std::time::Instant::now();
        let (runs, disc, failures) = native::explore(f, max_runs);
        println!("{:?}: runs {} discarded {} failures {} ({:.1}s){}", which, runs, disc, failures.len(), t0.elapsed().as_secs_f64(),
            if runs >= max_runs { " TRUNCATED" } else { "" });
        for (script, msg) in failures {
            let key = format!("{:?} :: {}", which, msg);
            let e = summary.entry(key).or_insert((0, vec![]));
            e.0 += 1;
            if e.1.len() < 3 || script.len() < e.1[0].len() / 4 {
                e.1.insert(0, format!("{:?}", script));
                e.1.truncate(3);
            }
        }
    }
    for (k, (n, ex)) in summary {
        println!("{:6} x {}", n, k);
        for e in ex {
            println!("          e.g. script={}", e);
        }
    }
}

/// `explore find <harness> [needle]`: depth-first enumeration of every nondeterministic behaviour of the named
/// harness body on the natively compiled crustabri; prints the first script whose failure message contains `needle`.
/// `explore replay <harness> <v1,v2,...>`: re-runs one script (explorer indices).
fn find(name: &str, needle: &str, max_runs: usize) -> i32 {
    let f = match registry::lookup(name) {
        Some(f) => f,
        None => {
            println!("UNKNOWN-HARNESS {}", name);
            return 3;
        }
    };
    let (runs, disc, failures) = native::explore(move || f(), max_runs);
    for (script, msg) in failures.iter() {
        if msg.contains(needle) {
            let sc: Vec<String> = script.iter().map(|v| v.to_string()).collect();
            println!("REPRODUCED runs={} script={} message={}", runs, sc.join(","), msg);
            return 1;
        }
    }
    println!("NOT-REPRODUCED runs={} discarded={} other_failures={} truncated={}", runs, disc, failures.len(), runs >= max_runs);
    for (script, msg) in failures.iter().take(3) {
        println!("  other: {:?} {}", script, msg);
    }
    0
}

fn replay_script(name: &str, script: &str) -> i32 {
    let f = match registry::lookup(name) {
        Some(f) => f,
        None => {
            println!("UNKNOWN-HARNESS {}", name);
            return 3;
        }
    };
    let values: Vec<u64> = script.split(',').filter(|s| !s.is_empty()).map(|s| s.parse().unwrap()).collect();
    native::SCRIPT.with(|s| {
        *s.borrow_mut() = native::Script { values, domains: vec![], pos: 0, raw: false };
    });
    let hook = std::panic::take_hook();
    std::panic::set_hook(Box::new(|_| {}));
    let r = std::panic::catch_unwind(move || f());
    std::panic::set_hook(hook);
    match r {
        Ok(()) => {
            println!("NOT-REPRODUCED the script runs without failure");
            0
        }
        Err(e) => {
            if e.downcast_ref::<native::Discard>().is_some() {
                println!("NOT-REPRODUCED the script violates an assumption of the harness");
                return 0;
            }
            let msg = if let Some(s) = e.downcast_ref::<String>() {
                s.clone()
            } else if let Some(s) = e.downcast_ref::<&str>() {
                s.to_string()
            } else {
                "panic".to_string()
            };
            println!("REPRODUCED message={}", msg);
            1
        }
    }
}

fn main() {
    let args: Vec<String> = std::env::args().collect();
    if args.get(1).map(|s| s == "find").unwrap_or(false) {
        let max_runs: usize = args.get(4).map(|s| s.parse().unwrap()).unwrap_or(20_000_000);
        std::process::exit(find(&args[2], args.get(3).map(|s| s.as_str()).unwrap_or(""), max_runs));
    }
    if args.get(1).map(|s| s == "satcount").unwrap_or(false) {
        // runs the harness once (first behaviour) and prints how many satisfiable answers the oracle gave
        let f = registry::lookup(&args[2]).expect("unknown harness");
        let _ = std::panic::catch_unwind(move || f());
        println!("{}", crustabri_verif::oracle::SAT_ANSWERS.load(std::sync::atomic::Ordering::Relaxed));
        return;
    }
    if args.get(1).map(|s| s == "satcount-all").unwrap_or(false) {
        // explores every behaviour of the harness; prints the number of satisfiable answers over all of them and the
        // failure messages met (used by lib/select_unsat_first.py)
        let f = registry::lookup(&args[2]).expect("unknown harness");
        let (runs, _disc, failures) = native::explore(move || f(), 100_000);
        println!("SAT_ANSWERS {} runs {}", crustabri_verif::oracle::SAT_ANSWERS.load(std::sync::atomic::Ordering::Relaxed), runs);
        for (_s, m) in failures.iter() {
            println!("FAILURE {}", m);
        }
        return;
    }
    if args.get(1).map(|s| s == "replay").unwrap_or(false) {
        std::process::exit(replay_script(&args[2], args.get(3).map(|s| s.as_str()).unwrap_or("")));
    }
    if args.get(1).map(|s| s == "dynamic").unwrap_or(false) {
        let events: usize = args.get(2).map(|s| s.parse().unwrap()).unwrap_or(4);
        let allow_bad = args.get(3).map(|s| s == "bad").unwrap_or(false);
        let labels: u32 = args.get(4).map(|s| s.parse().unwrap()).unwrap_or(2);
        let max_runs: usize = args.get(5).map(|s| s.parse().unwrap()).unwrap_or(3_000_000);
        run_dynamic(events, allow_bad, labels, max_runs);
        return;
    }
    let n: usize = args.get(2).map(|s| s.parse().unwrap()).unwrap_or(2);
    let max_runs: usize = args.get(3).map(|s| s.parse().unwrap()).unwrap_or(20000);
    let only_single = args.get(4).map(|s| s == "single").unwrap_or(false);
    match n {
        1 => run_n::<1>(max_runs, only_single),
        2 => run_n::<2>(max_runs, only_single),
        3 => run_n::<3>(max_runs, only_single),
        _ => panic!("N"),
    }
}
